------------------------------- MODULE GtBank -------------------------------
(* Treasury GT bank buyback claims and treasury factors, transcribed from
     programs/treasury/src/instructions/gt_bank.rs   CompleteGtExchange::execute
     programs/treasury/src/states/gt_bank.rs         record_transferred_in/out, record_claimed
     programs/treasury/src/states/config.rs          set_gt_factor, set_buyback_factor
   A confirmed bank is [bal : Seq(Nat) (one balance per token of the bank), rem : Nat] with
   rem = remaining confirmed GT.  Factors are handled as [q, r]: q = factor div 10^18 (whole percents),
   r = factor mod 10^18 as a decimal string, compared for equality only (so 100% = [100, "0"]). *)
EXTENDS Integers, Sequences

(* per token: floor(balance * gt / remaining); tokens with zero balance are skipped *)
Pay(bal, gt, rem) == [t \in DOMAIN bal |-> IF bal[t] = 0 THEN 0 ELSE (bal[t] * gt) \div rem]

(* complete_gt_exchange with the exchange's GT amount gt (the exchange is closed by the store first);
   gt = 0 returns early; otherwise gt <= rem is required; every token is paid from the CURRENT balance,
   recorded out, then the claimed GT is subtracted *)
Claim(s, gt) ==
  LET none == [t \in DOMAIN s.bal |-> 0] IN
  IF gt = 0 THEN [ok |-> TRUE, paid |-> none, bal |-> s.bal, rem |-> s.rem]
  ELSE IF gt > s.rem THEN [ok |-> FALSE, paid |-> none, bal |-> s.bal, rem |-> s.rem]
  ELSE LET p == Pay(s.bal, gt, s.rem) IN
       [ok |-> TRUE, paid |-> p, bal |-> [t \in DOMAIN s.bal |-> s.bal[t] - p[t]], rem |-> s.rem - gt]

(* deposit recorded into the bank (record_transferred_in) *)
Deposit(s, t, amount) == [bal |-> [s.bal EXCEPT ![t] = @ + amount], rem |-> s.rem]

(* --- factors.  LeqOne(f): f <= 10^20 *)
LeqOne(f) == f.q < 100 \/ (f.q = 100 /\ f.r = "0")
(* set_*_factor(new) on the stored factor cur: rejected above 100% and when unchanged *)
SetFactor(cur, new) ==
  IF ~LeqOne(new) \/ new = cur THEN [ok |-> FALSE, f |-> cur] ELSE [ok |-> TRUE, f |-> new]
=============================================================================
