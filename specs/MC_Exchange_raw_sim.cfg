SPECIFICATION Spec
CONSTANTS
  Unit = 10
  MaxU = 2147483647
  MaxS = 2147483647
  Protocol = FALSE
  CfgIds = {1, 2, 3, 4, 5, 6}
  MaxDepth = 40
  Sample = 1
  PriceMoves = {7, 8, 9, 10, 11, 12, 13}
  GuardShares = TRUE
  Rich = TRUE
VIEW View
INVARIANTS MonitorsHold Emitted
CHECK_DEADLOCK FALSE
