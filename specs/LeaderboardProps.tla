------------------------- MODULE LeaderboardProps -------------------------
(* C39 monitors.  An event e is one `on_executed` call of the real program:
   [op, reset, c (config), t, before, after, now, success, hasev, ok, pre, post]. *)
EXTENDS Leaderboard

Traders(s) == DOMAIN s.vol
OnBoard(s) == {s.board[i].a : i \in DOMAIN s.board}

(* --- state monitors (the statement's first two sentences), on the state after any call *)
MonLen(s)      == Len(s.board) <= 5
MonDistinct(s) == \A i, j \in DOMAIN s.board : i # j => s.board[i].a # s.board[j].a
MonSorted(s)   == \A i, j \in DOMAIN s.board : i < j => s.board[i].v >= s.board[j].v
MonLatest(s)   == \A i \in DOMAIN s.board :
                    s.board[i].a \in Traders(s) /\ s.board[i].v = s.vol[s.board[i].a]
MonLeftOff(s)  == Len(s.board) = 5 =>
                    \A t \in Traders(s) \ OnBoard(s) : s.vol[t] <= s.board[5].v
(* "the leaderboard is the top traders by volume" / "left off a FULL board": while the board is not
   full nobody with counted volume is left off *)
MonTopWhileNotFull(s) ==
  Len(s.board) < 5 => \A t \in Traders(s) : s.vol[t] > 0 => t \in OnBoard(s)

(* --- step monitors (third sentence): end time never earlier, never past max(end, now + cap) *)
MonEndNotEarlier(e) == e.post.end >= e.pre.end
MonEndCapped(e)     == e.post.end <= LMax(e.pre.end, e.now + e.c.cap)

StateMons(s) == MonLen(s) /\ MonDistinct(s) /\ MonSorted(s) /\ MonLatest(s) /\ MonLeftOff(s)
                /\ MonTopWhileNotFull(s)

(* --- conformance with the precise specification *)
Conforms(e) ==
  /\ e.ok
  /\ e.post = Trade(e.c, e.pre, e.t, e.before, e.after, e.now, e.success, e.hasev)
=============================================================================
