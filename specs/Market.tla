------------------------------- MODULE Market -------------------------------
(* Stage M1 of the market specification: the liquidity side of gmsol-model, implementation-shaped.
   Transcribed from crates/model/src/{action/swap.rs, action/deposit.rs, action/withdraw.rs,
   market/base.rs, market/swap.rs, market/liquidity.rs, market/borrowing.rs, market/utils.rs,
   market/position_impact.rs, pool/delta.rs, params/fee.rs, params/price_impact.rs, price.rs,
   utils.rs}: same order of sub-steps, same rounding at every division, explicit failure exits, and
   the partially updated state where the code mutates before its last validation (Deposit,
   Withdraw).  Swap is computed on a cache and committed at the end (atomic).

   A market state `m` is a record
     liq, imp, fee : [long, short]   liquidity / swap impact / claimable fee pool (token amounts)
     supply        : market token supply
     oi, oit       : [long, short]   open interest (usd) / in index tokens of the long and the short
                                     *position* side, summed over both collateral tokens
     pimp          : position impact pool (index tokens)
     bcum, tbor    : [long, short]   cumulative borrowing factor / total borrowing per position side
     vi            : [on, long, short] virtual inventory for swaps (on = the market has one)
   plus any further fields (they are carried along unchanged by EXCEPT).  Positions, funding and the
   clocks are not touched by the M1 actions; the clock is fixed (no time passes between the last
   borrowing / distribution update and the action), so pending amounts are the stored ones.

   A configuration `c` is a record
     feePos, feeNeg, feeRecv        swap fee factors (positive / negative impact, receiver share)
     feeDisc                        swap fee discount factor, -1 = none
     impPos, impNeg, impExp         swap impact factors and exponent (whole units)
     div                            usd_to_amount_divisor
     maxPool, maxPoolValue          max pool amount, max pool value for deposit
     reserveFactor, pnlDeposit, pnlWithdrawal, borrowRecv, skipSmaller

   Prices `pr` = [idx, long, short], each [min, max].
   Results are records with `ok`; numbers are plain integers (small world: products are assumed
   to fit the unsigned type, the checked divisions of Num keep their failure exits). *)
EXTENDS Fees

-----------------------------------------------------------------------------
(* two-sided pools *)
Pool2(l, s) == [long |-> l, short |-> s]
Amt(p, isLong) == IF isLong THEN p.long ELSE p.short
SetAmt(p, isLong, v) == IF isLong THEN [p EXCEPT !.long = v] ELSE [p EXCEPT !.short = v]

(* Pool::apply_delta_to_{long,short}_amount of the test pool: checked add / checked sub *)
PoolApply(p, isLong, d) ==
  LET r == AddSigned(Amt(p, isLong), d)
  IN [ok |-> r.ok /\ Abs(d) <= MaxS, p |-> IF r.ok THEN SetAmt(p, isLong, r.v) ELSE p]

(* prices *)
Pick(p, maximize) == IF maximize THEN p.max ELSE p.min
PickForPnl(p, isLong, maximize) == IF isLong # maximize THEN p.min ELSE p.max
Mid(p) == (p.min + p.max) \div 2
HasZero(p) == p.min = 0 \/ p.max = 0
PriceValid(p) == p.min # 0 /\ p.max # 0 /\ p.min + p.max <= MaxU
PricesValid(pr) == PriceValid(pr.idx) /\ PriceValid(pr.long) /\ PriceValid(pr.short)
TokenPrice(pr, isLong) == IF isLong THEN pr.long ELSE pr.short

-----------------------------------------------------------------------------
(* params/fee.rs: FeeParams::apply_fees (Fees.tla) with the market's swap fee factors;
   c.feeDisc = -1: no discount factor configured *)
FailFees == [ok |-> FALSE, after |-> 0, pool |-> 0, recv |-> 0]
MktFees(c, change, amt) ==
  LET r == ApplyFees([pf |-> c.feePos, nf |-> c.feeNeg, rf |-> c.feeRecv, disc |-> c.feeDisc],
                     IF change = "improved" THEN 1 ELSE IF change = "worsened" THEN -1 ELSE 0, amt)
  IN IF ~r.ok THEN FailFees ELSE [ok |-> TRUE, after |-> r.net, pool |-> r.pool, recv |-> r.recv]

-----------------------------------------------------------------------------
(* pool/delta.rs: PoolDelta::price_impact on usd values *)
FailImpact == [ok |-> FALSE, v |-> 0, change |-> "unchanged"]
ImpactOfValues(curL, curS, dL, dS, c) ==
  LET nL == curL + dL
      nS == curS + dS
  IN IF ~InU(nL) \/ ~InU(nS) THEN FailImpact
     ELSE
       LET init == Abs(curL - curS)
           next == Abs(nL - nS)
           change == IF next = init THEN "unchanged" ELSE IF next > init THEN "worsened" ELSE "improved"
           same == (curL <= curS) = (nL <= nS)
           pos == IF c.impPos > c.impNeg THEN c.impNeg ELSE c.impPos      \* adjusted_factors
           neg == c.impNeg
           e   == c.impExp * Unit
       IN IF same
          THEN LET hasPos == next < init
                   f == IF hasPos THEN pos ELSE neg
                   i == ApplyFactors(init, f, e)
                   n == ApplyFactors(next, f, e)
               IN IF ~i.ok \/ ~n.ok \/ Abs(i.v - n.v) > MaxS THEN FailImpact
                  ELSE [ok |-> TRUE, change |-> change,
                        v |-> IF hasPos THEN Abs(i.v - n.v) ELSE -Abs(i.v - n.v)]
          ELSE LET p == ApplyFactors(init, pos, e)
                   q == ApplyFactors(next, neg, e)
               IN IF ~p.ok \/ ~q.ok \/ Abs(p.v - q.v) > MaxS THEN FailImpact
                  ELSE [ok |-> TRUE, change |-> change,
                        v |-> IF p.v > q.v THEN Abs(p.v - q.v) ELSE -Abs(p.v - q.v)]

ImpactOnPool(p, dL, dS, midL, midS, c) == ImpactOfValues(p.long * midL, p.short * midS, dL, dS, c)

(* market/swap.rs: swap_impact_value — the worse of the real and the virtual-inventory impact *)
SwapImpactValue(m, c, dL, dS, midL, midS, includeVi) ==
  LET base == ImpactOnPool(m.liq, dL, dS, midL, midS, c)
  IN IF ~base.ok THEN FailImpact
     ELSE IF base.v >= 0 \/ ~includeVi \/ ~m.vi.on THEN base
     ELSE LET v == ImpactOnPool(m.vi, dL, dS, midL, midS, c)
          IN IF ~v.ok THEN FailImpact ELSE IF v.v < base.v THEN v ELSE base

(* market/swap.rs: swap_impact_amount_with_cap.  amt is signed; capDiff is a usd value *)
FailCap == [ok |-> FALSE, amt |-> 0, capDiff |-> 0]
ImpactAmountWithCap(m, isLong, price, usd) ==
  IF HasZero(price) THEN FailCap
  ELSE IF usd > 0
  THEN LET amount == usd \div price.max
           mx     == Amt(m.imp, isLong)
       IN IF amount > mx
          THEN [ok |-> TRUE, amt |-> mx, capDiff |-> (amount - mx) * price.max]
          ELSE [ok |-> TRUE, amt |-> amount, capDiff |-> 0]
  ELSE IF usd < 0
  THEN [ok |-> TRUE, amt |-> -CeilDiv(-usd, price.min), capDiff |-> 0]
  ELSE [ok |-> TRUE, amt |-> 0, capDiff |-> 0]

(* market/base.rs: checked_apply_delta / apply_delta — the liquidity pool and, when the market
   has one, the virtual inventory for swaps *)
LiqApply(m, isLong, d) ==
  LET a == PoolApply(m.liq, isLong, d)
      b == IF m.vi.on THEN PoolApply(m.vi, isLong, d) ELSE [ok |-> TRUE, p |-> m.vi]
  IN IF a.ok /\ b.ok THEN [ok |-> TRUE, m |-> [m EXCEPT !.liq = a.p, !.vi = b.p]]
     ELSE [ok |-> FALSE, m |-> m]

-----------------------------------------------------------------------------
(* market/base.rs: validations *)
SideValue(m, pr, isLong, maximize) == Amt(m.liq, isLong) * Pick(TokenPrice(pr, isLong), maximize)
PoolAmountOK(m, c, isLong) == Amt(m.liq, isLong) <= c.maxPool
Reserved(m, pr, isLong) == IF isLong THEN m.oit.long * pr.idx.max ELSE m.oi.short
ReserveOK(m, c, pr, isLong) ==
  LET mx == ApplyFactor(SideValue(m, pr, isLong, FALSE), c.reserveFactor)
  IN mx.ok /\ Reserved(m, pr, isLong) <= mx.v
Pnl(m, idx, isLong, maximize) ==
  LET oi == Amt(m.oi, isLong)
      oit == Amt(m.oit, isLong)
      price == PickForPnl(idx, isLong, maximize)
  IN IF oi = 0 /\ oit = 0 THEN 0 ELSE IF isLong THEN oit * price - oi ELSE oi - oit * price
KindFactor(c, kind) == IF kind = "deposit" THEN c.pnlDeposit ELSE c.pnlWithdrawal
PnlFactorOK(m, c, pr, kind, isLong) ==
  LET f == DivToFactorSigned(Pnl(m, pr.idx, isLong, TRUE), SideValue(m, pr, isLong, FALSE))
  IN f.ok /\ ~(f.v > 0 /\ f.v > KindFactor(c, kind))
MaxPnlOK(m, c, pr, longKind, shortKind) ==
  PnlFactorOK(m, c, pr, longKind, TRUE) /\ PnlFactorOK(m, c, pr, shortKind, FALSE)
PoolValueForDepositOK(m, c, pr, isLong) == SideValue(m, pr, isLong, TRUE) <= c.maxPoolValue

(* market/utils.rs: cap_pnl *)
CapPnl(c, pnl, sideValue, kind) ==
  IF pnl > 0
  THEN LET mx == ApplyFactor(sideValue, KindFactor(c, kind))
       IN IF ~mx.ok THEN Fail ELSE Ok(Min(pnl, mx.v))
  ELSE Ok(pnl)

(* market/borrowing.rs: total_pending_borrowing_fees with no time passed since the last update.
   The per-second rate is still evaluated (and multiplied by 0): it fails on an empty pool side
   with a non-zero reserve, unless the smaller-side rule skips it.  (Exponent model with exponent
   one unit / kink model off: nothing else can fail.) *)
BorrowRateDefined(m, c, pr, isLong) ==
  \/ Reserved(m, pr, isLong) = 0
  \/ c.skipSmaller /\ (IF isLong THEN m.oi.long < m.oi.short ELSE m.oi.short < m.oi.long)
  \/ SideValue(m, pr, isLong, FALSE) # 0
PendingBorrowing(m, c, pr, isLong) ==
  IF ~BorrowRateDefined(m, c, pr, isLong) THEN Fail
  ELSE LET t == ApplyFactor(Amt(m.oi, isLong), Amt(m.bcum, isLong))
       IN IF ~t.ok \/ t.v < Amt(m.tbor, isLong) THEN Fail ELSE Ok(t.v - Amt(m.tbor, isLong))

(* market/liquidity.rs: pool_value(prices, pnl_factor, maximize) — signed *)
PoolValue(m, c, pr, kind, maximize) ==
  LET Lv == SideValue(m, pr, TRUE, maximize)
      Sv == SideValue(m, pr, FALSE, maximize)
      bl == PendingBorrowing(m, c, pr, TRUE)
      bs == PendingBorrowing(m, c, pr, FALSE)
  IN IF Lv + Sv > MaxS \/ ~bl.ok \/ ~bs.ok \/ c.borrowRecv > Unit THEN Fail
     ELSE
       LET b  == ApplyFactor(bl.v + bs.v, Unit - c.borrowRecv)
           pl == CapPnl(c, Pnl(m, pr.idx, TRUE, ~maximize), Lv, kind)
           ps == CapPnl(c, Pnl(m, pr.idx, FALSE, ~maximize), Sv, kind)
       IN IF ~b.ok \/ ~pl.ok \/ ~ps.ok THEN Fail
          ELSE S(Lv + Sv + b.v - (pl.v + ps.v) - m.pimp * Pick(pr.idx, ~maximize))

(* market_token_value(amount): value of `amount` market tokens; undefined without supply *)
MarketTokenValue(m, c, pr, kind, maximize, amount) ==
  LET pv == PoolValue(m, c, pr, kind, maximize)
  IN IF m.supply = 0 \/ ~pv.ok \/ pv.v < 0 THEN Fail ELSE MarketTokenToUsd(amount, pv.v, m.supply)

-----------------------------------------------------------------------------
(* action/swap.rs: Swap::try_execute + execute.  Atomic: a failure returns the state unchanged.
   Result: out = token_out_amount, impact = price impact value, impactAmt = price_impact_amount,
   feePool / feeRecv = fees on the input token. *)
SwapFail(m) == [ok |-> FALSE, m |-> m, out |-> 0, impact |-> 0, impactAmt |-> 0,
                feePool |-> 0, feeRecv |-> 0]

SwapCommit(m, c, pr, isInLong, liq1, imp1, fee1, out, impact, impactAmt, fees) ==
  (* step 7: validations on the cache, step 8: write *)
  LET m1 == [m EXCEPT !.liq = liq1.m.liq, !.vi = liq1.m.vi, !.imp = imp1, !.fee = fee1]
      longKind  == IF isInLong THEN "deposit" ELSE "withdrawal"
      shortKind == IF isInLong THEN "withdrawal" ELSE "deposit"
  IN IF /\ PoolAmountOK(m1, c, isInLong)
        /\ ReserveOK(m1, c, pr, ~isInLong)
        /\ MaxPnlOK(m1, c, pr, longKind, shortKind)
     THEN [ok |-> TRUE, m |-> m1, out |-> out, impact |-> impact, impactAmt |-> impactAmt,
           feePool |-> fees.pool, feeRecv |-> fees.recv]
     ELSE SwapFail(m)

Swap(m, c, isInLong, amtIn, pr) ==
  IF amtIn = 0 \/ ~PricesValid(pr) THEN SwapFail(m)
  ELSE
  LET pin  == TokenPrice(pr, isInLong)
      pout == TokenPrice(pr, ~isInLong)
      v    == amtIn * Mid(pin)
      dL   == IF isInLong THEN v ELSE -v
      imp0 == SwapImpactValue(m, c, dL, -dL, Mid(pr.long), Mid(pr.short), TRUE)
  IN IF v > MaxS \/ ~imp0.ok THEN SwapFail(m)
  ELSE
  LET fees == MktFees(c, imp0.change, amtIn)
      fee1 == PoolApply(m.fee, isInLong, fees.recv)
  IN IF ~fees.ok \/ ~fee1.ok THEN SwapFail(m)
  ELSE IF imp0.v > 0
  THEN (* positive impact: paid from the output-token impact pool, the capped part from the
          input-token impact pool *)
    LET cap1 == ImpactAmountWithCap(m, ~isInLong, pout, imp0.v)
    IN IF ~cap1.ok THEN SwapFail(m)
    ELSE
    LET cap2 == IF cap1.capDiff = 0 THEN [ok |-> TRUE, amt |-> 0, capDiff |-> 0]
                ELSE ImpactAmountWithCap(m, isInLong, pin, cap1.capDiff)
    IN IF ~cap2.ok THEN SwapFail(m)
    ELSE
    LET tokenIn == fees.after + cap2.amt
        i1 == PoolApply(m.imp, ~isInLong, -cap1.amt)
        i2 == PoolApply(i1.p, isInLong, -cap2.amt)
        poolOut == MulDivFloor(tokenIn, pin.min, pout.max)
    IN IF ~i1.ok \/ ~i2.ok \/ ~poolOut.ok THEN SwapFail(m)
    ELSE
    LET l1 == LiqApply(m, isInLong, tokenIn + fees.pool)
        l2 == LiqApply(l1.m, ~isInLong, -poolOut.v)
    IN IF ~l1.ok \/ ~l2.ok THEN SwapFail(m)
       ELSE SwapCommit(m, c, pr, isInLong, l2, i2.p, fee1.p, poolOut.v + cap1.amt, imp0.v, cap1.amt, fees)
  ELSE (* negative or zero impact: charged in input tokens, rounded up, into the input-token pool *)
    LET cap == ImpactAmountWithCap(m, isInLong, pin, imp0.v)
    IN IF ~cap.ok THEN SwapFail(m)
    ELSE
    LET i1 == PoolApply(m.imp, isInLong, -cap.amt)
        tokenIn == fees.after + cap.amt                       \* cap.amt <= 0
    IN IF ~i1.ok \/ tokenIn <= 0 THEN SwapFail(m)
    ELSE
    LET poolOut == MulDivFloor(tokenIn, pin.min, pout.max)
    IN IF ~poolOut.ok THEN SwapFail(m)
    ELSE
    LET l1 == LiqApply(m, isInLong, tokenIn + fees.pool)
        l2 == LiqApply(l1.m, ~isInLong, -poolOut.v)
    IN IF ~l1.ok \/ ~l2.ok THEN SwapFail(m)
       ELSE SwapCommit(m, c, pr, isInLong, l2, i1.p, fee1.p, poolOut.v, imp0.v, -cap.amt, fees)

-----------------------------------------------------------------------------
(* action/deposit.rs.  NOT atomic in the model crate: a failure returns the state as far as it
   had been updated (the on-chain wrapper restores atomicity).  Prices are not validated by
   Deposit::try_new; callers pass valid prices. *)
NoFees == [pool |-> 0, recv |-> 0]
DepFail(m) == [ok |-> FALSE, m |-> m, mint |-> 0, fees |-> NoFees]

(* Deposit::execute_deposit for one side; pv and supply are the values before the deposit *)
ExecuteDeposit(m, c, pr, isLong, amount0, pv, adj0, change) ==
  LET supply == m.supply
      price  == TokenPrice(pr, isLong)
      opp    == TokenPrice(pr, ~isLong)
  IN IF pv = 0 /\ supply # 0 THEN DepFail(m)
  ELSE
  LET fees == MktFees(c, change, amount0)
  IN IF ~fees.ok THEN DepFail(m)
  ELSE
  LET f1 == PoolApply(m.fee, isLong, fees.recv)
  IN IF ~f1.ok THEN DepFail(m)
  ELSE
  LET m1  == [m EXCEPT !.fee = f1.p]
      adj == IF adj0 > 0 /\ supply = 0 THEN 0 ELSE adj0
      (* positive impact: opposite-token impact pool -> liquidity, minted at the max price *)
      posStep ==
        LET cap == ImpactAmountWithCap(m1, ~isLong, opp, adj)
        IN IF ~cap.ok THEN [ok |-> FALSE, m |-> m1, mint |-> 0, amount |-> 0]
        ELSE
        LET i1 == PoolApply(m1.imp, ~isLong, -cap.amt)
        IN IF ~i1.ok THEN [ok |-> FALSE, m |-> m1, mint |-> 0, amount |-> 0]
        ELSE
        LET m2 == [m1 EXCEPT !.imp = i1.p]
            mt == UsdToMarketToken(cap.amt * opp.max, pv, supply, c.div)
        IN IF ~mt.ok THEN [ok |-> FALSE, m |-> m2, mint |-> 0, amount |-> 0]
        ELSE
        LET l1 == LiqApply(m2, ~isLong, cap.amt)
        IN IF ~l1.ok THEN [ok |-> FALSE, m |-> m2, mint |-> 0, amount |-> 0]
           ELSE [ok |-> PoolAmountOK(l1.m, c, ~isLong), m |-> l1.m, mint |-> mt.v, amount |-> fees.after]
      (* negative impact: charged in deposited tokens (rounded up) into the same-token impact pool *)
      negStep ==
        LET cap == ImpactAmountWithCap(m1, isLong, price, adj)
        IN IF ~cap.ok THEN [ok |-> FALSE, m |-> m1, mint |-> 0, amount |-> 0]
        ELSE
        LET i1 == PoolApply(m1.imp, isLong, -cap.amt)
        IN IF ~i1.ok THEN [ok |-> FALSE, m |-> m1, mint |-> 0, amount |-> 0]
           ELSE [ok |-> fees.after + cap.amt >= 0, m |-> [m1 EXCEPT !.imp = i1.p], mint |-> 0,
                 amount |-> fees.after + cap.amt]
      st == IF adj > 0 THEN posStep ELSE IF adj < 0 THEN negStep
            ELSE [ok |-> TRUE, m |-> m1, mint |-> 0, amount |-> fees.after]
  IN IF ~st.ok THEN DepFail(st.m)
  ELSE
  LET mt == UsdToMarketToken(st.amount * price.min, pv, supply, c.div)
  IN IF ~mt.ok THEN DepFail(st.m)
  ELSE
  LET l1 == LiqApply(st.m, isLong, st.amount + fees.pool)
  IN IF ~l1.ok THEN DepFail(st.m)
     ELSE IF ~PoolAmountOK(l1.m, c, isLong) \/ ~PoolValueForDepositOK(l1.m, c, pr, isLong) THEN DepFail(l1.m)
     ELSE [ok |-> TRUE, m |-> l1.m, mint |-> st.mint + mt.v, fees |-> [pool |-> fees.pool, recv |-> fees.recv]]

DepositFail(m) == [ok |-> FALSE, m |-> m, minted |-> 0, impact |-> 0, feesL |-> NoFees, feesS |-> NoFees]

Deposit(m, c, l, s, pr) ==
  IF l = 0 /\ s = 0 THEN DepositFail(m)
  ELSE IF ~MaxPnlOK(m, c, pr, "deposit", "deposit") THEN DepositFail(m)
  ELSE
  LET midL == Mid(pr.long)
      midS == Mid(pr.short)
      Lusd == midL * l
      Susd == midS * s
      imp0 == SwapImpactValue(m, c, Lusd, Susd, midL, midS, TRUE)
      pv   == PoolValue(m, c, pr, "deposit", TRUE)
  IN IF Lusd > MaxS \/ Susd > MaxS \/ ~imp0.ok \/ ~pv.ok \/ pv.v < 0 THEN DepositFail(m)
  ELSE
  LET adjL == MulDivSigned(Lusd, imp0.v, Lusd + Susd)
      dl   == IF l = 0 THEN [ok |-> TRUE, m |-> m, mint |-> 0, fees |-> NoFees]
              ELSE IF ~adjL.ok THEN DepFail(m)
              ELSE ExecuteDeposit(m, c, pr, TRUE, l, pv.v, adjL.v, imp0.change)
  IN IF ~dl.ok THEN DepositFail(dl.m)
  ELSE
  LET adjS == MulDivSigned(Susd, imp0.v, Lusd + Susd)
      ds   == IF s = 0 THEN [ok |-> TRUE, m |-> dl.m, mint |-> 0, fees |-> NoFees]
              ELSE IF ~adjS.ok THEN DepFail(dl.m)
              ELSE ExecuteDeposit(dl.m, c, pr, FALSE, s, pv.v, adjS.v, imp0.change)
  IN IF ~ds.ok THEN DepositFail(ds.m)
     ELSE IF ds.m.supply + dl.mint + ds.mint > MaxU THEN DepositFail(ds.m)
     ELSE [ok |-> TRUE, m |-> [ds.m EXCEPT !.supply = @ + dl.mint + ds.mint],
           minted |-> dl.mint + ds.mint, impact |-> imp0.v, feesL |-> dl.fees, feesS |-> ds.fees]

-----------------------------------------------------------------------------
(* action/withdraw.rs.  The fee and liquidity pools are written before the final validations, so a
   failure there leaves them updated (model crate only). *)
WithdrawFail(m) == [ok |-> FALSE, m |-> m, longOut |-> 0, shortOut |-> 0, feesL |-> NoFees, feesS |-> NoFees]

Withdraw(m, c, mt, pr) ==
  IF mt = 0 \/ ~PricesValid(pr) THEN WithdrawFail(m)
  ELSE
  LET pv == PoolValue(m, c, pr, "withdrawal", FALSE)
  IN IF ~pv.ok \/ pv.v <= 0 THEN WithdrawFail(m)
  ELSE
  LET Lv == m.liq.long * pr.long.max
      Sv == m.liq.short * pr.short.max
      mv == MarketTokenToUsd(mt, pv.v, m.supply)
  IN IF ~mv.ok THEN WithdrawFail(m)
  ELSE
  LET lu == MulDivFloor(mv.v, Lv, Lv + Sv)
      su == MulDivFloor(mv.v, Sv, Lv + Sv)
  IN IF ~lu.ok \/ ~su.ok THEN WithdrawFail(m)
  ELSE
  LET fl == MktFees(c, "worsened", lu.v \div pr.long.max)
      fs == MktFees(c, "worsened", su.v \div pr.short.max)
  IN IF ~fl.ok \/ ~fs.ok THEN WithdrawFail(m)
  ELSE
  LET f1 == PoolApply(m.fee, TRUE, fl.recv)
  IN IF ~f1.ok THEN WithdrawFail(m)
  ELSE
  LET f2 == PoolApply(f1.p, FALSE, fs.recv)
  IN IF ~f2.ok THEN WithdrawFail([m EXCEPT !.fee = f1.p])
  ELSE
  LET m1 == [m EXCEPT !.fee = f2.p]
      l1 == LiqApply(m1, TRUE, -(fl.recv + fl.after))
  IN IF ~l1.ok THEN WithdrawFail(m1)
  ELSE
  LET l2 == LiqApply(l1.m, FALSE, -(fs.recv + fs.after))
  IN IF ~l2.ok THEN WithdrawFail(l1.m)
  ELSE IF \/ ~ReserveOK(l2.m, c, pr, TRUE) \/ ~ReserveOK(l2.m, c, pr, FALSE)
          \/ ~MaxPnlOK(l2.m, c, pr, "withdrawal", "withdrawal")
          \/ mt > l2.m.supply
       THEN WithdrawFail(l2.m)
  ELSE [ok |-> TRUE, m |-> [l2.m EXCEPT !.supply = @ - mt], longOut |-> fl.after, shortOut |-> fs.after,
        feesL |-> [pool |-> fl.pool, recv |-> fl.recv], feesS |-> [pool |-> fs.pool, recv |-> fs.recv]]
=============================================================================
