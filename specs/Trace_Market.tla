---------------------------- MODULE Trace_Market ----------------------------
(* Trace validation for C04 / C05 / C06: walks the ndjson trace recorded from the real code
   (h-model c04 driver), judges every event with the monitors of MarketProps and compares it with
   the precise actions of Market.tla (drift).  Environment: TRACE = file, MON = "C04" | "C05" |
   "C06" | "ALL" selects which property's monitors are evaluated. *)
EXTENDS MarketProps, TraceLib
VARIABLE i
Sel == IF Has(IOEnv, "MON") THEN IOEnv.MON ELSE "ALL"
On(p) == Sel = p \/ Sel = "ALL"
Init == i = 0
Next ==
  /\ i < NRec
  /\ i' = i + 1
  /\ LET e == Rec[i'] IN
       /\ On("C04") => Judge(i', << <<"C04In", C04In(e)>>, <<"C04Out", C04Out(e)>>, <<"C04Atomic", C04Atomic(e)>> >>)
       /\ On("C05") => Judge(i', << <<"C05Value", C05Value(e)>>, <<"C05Exact", C05Exact(e)>>,
                          <<"C05Funded", C05Funded(e)>> >>)
       /\ On("C06") => Judge(i', <<
            <<"C06RoundTrip", (i' > 1 /\ e.rt) => C06RoundTrip(Rec[i' - 1], e)>>,
            <<"C06RoundTripFunded", (i' > 1 /\ e.rt) => C06RoundTripFunded(Rec[i' - 1], e)>>,
            <<"C06DepositShare", C06DepositShare(e)>>,
            <<"C06WithdrawShare", C06WithdrawShare(e)>>,
            <<"C06First", C06First(e)>> >>)
       /\ Drift(i', Conforms(e), e.op)
Spec == Init /\ [][Next]_i
Done == Emit("DONE", [events |-> TLCGet("stats").diameter - 1])
=============================================================================
