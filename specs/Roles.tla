-------------------------------- MODULE Roles --------------------------------
(* Role store of the store program (programs/store/src/states/roles.rs, store.rs), written like
   the code: two fixed-capacity maps
     roles   : role name -> [en : enabled?, idx : bit index assigned at first enable = number of
               roles known at that moment]          (RoleMap, capacity maxRoles = 32; never shrinks)
     members : address -> set of bit indices          (Members, capacity maxMembers = 64; an entry is
               removed when its last bit is cleared)
   plus the cached last-restart slot of the Store (`stored`) and the cluster's (`cur`, the
   LastRestartSlot sysvar).  A state is the record
     [roles, members, stored, cur, maxRoles, maxMembers, authority].
   Every operation returns [ok, err, s]: ok = FALSE is the code's Err(err) and s is then the
   unchanged state. *)
EXTENDS Integers, FiniteSets, TLC

RestartAdmin == "RESTART_ADMIN"

NoRoles   == [x \in {} |-> [en |-> FALSE, idx |-> 0]]
NoMembers == [x \in {} |-> {}]
InitState(maxRoles, maxMembers, authority) ==
  [roles |-> NoRoles, members |-> NoMembers, stored |-> 0, cur |-> 0,
   maxRoles |-> maxRoles, maxMembers |-> maxMembers, authority |-> authority]

Put(f, k, v) == [x \in DOMAIN f \cup {k} |-> IF x = k THEN v ELSE f[x]]
Del(f, k)    == [x \in DOMAIN f \ {k} |-> f[x]]

Known(s, r)    == r \in DOMAIN s.roles
Enabled(s, r)  == Known(s, r) /\ s.roles[r].en
IsMember(s, a) == a \in DOMAIN s.members
NumRoles(s)    == Cardinality(DOMAIN s.roles)
NumMembers(s)  == Cardinality(DOMAIN s.members)

ROk(s)        == [ok |-> TRUE, err |-> "", s |-> s]
RFail(s, err) == [ok |-> FALSE, err |-> err, s |-> s]

(* RoleStore::enable_role *)
Enable(s, r) ==
  IF Known(s, r)
  THEN IF s.roles[r].en THEN RFail(s, "PreconditionsAreNotMet")
       ELSE ROk([s EXCEPT !.roles = Put(s.roles, r, [s.roles[r] EXCEPT !.en = TRUE])])
  ELSE IF NumRoles(s) >= s.maxRoles THEN RFail(s, "ExceedMaxLengthLimit")
       ELSE ROk([s EXCEPT !.roles = Put(s.roles, r, [en |-> TRUE, idx |-> NumRoles(s)])])

(* RoleStore::disable_role: an unknown role is a successful no-op *)
Disable(s, r) ==
  IF ~Known(s, r) THEN ROk(s)
  ELSE IF ~s.roles[r].en THEN RFail(s, "PreconditionsAreNotMet")
  ELSE ROk([s EXCEPT !.roles = Put(s.roles, r, [s.roles[r] EXCEPT !.en = FALSE])])

(* RoleStore::grant: the role must exist and be enabled *)
Grant(s, a, r) ==
  IF ~Known(s, r) THEN RFail(s, "NotFound")
  ELSE IF ~s.roles[r].en THEN RFail(s, "PreconditionsAreNotMet")
  ELSE LET i == s.roles[r].idx IN
       IF IsMember(s, a)
       THEN IF i \in s.members[a] THEN RFail(s, "PreconditionsAreNotMet")
            ELSE ROk([s EXCEPT !.members = Put(s.members, a, s.members[a] \cup {i})])
       ELSE IF NumMembers(s) >= s.maxMembers THEN RFail(s, "ExceedMaxLengthLimit")
            ELSE ROk([s EXCEPT !.members = Put(s.members, a, {i})])

(* RoleStore::revoke: the role only has to exist (enabled or not) *)
Revoke(s, a, r) ==
  IF ~Known(s, r) THEN RFail(s, "NotFound")
  ELSE IF ~IsMember(s, a) THEN RFail(s, "PermissionDenied")
  ELSE LET i == s.roles[r].idx IN
       IF i \notin s.members[a] THEN RFail(s, "PreconditionsAreNotMet")
       ELSE LET rest == s.members[a] \ {i} IN
            IF rest = {} THEN ROk([s EXCEPT !.members = Del(s.members, a)])
            ELSE ROk([s EXCEPT !.members = Put(s.members, a, rest)])

(* the cluster restarts: the LastRestartSlot sysvar moves (environment) *)
Restart(s) == ROk([s EXCEPT !.cur = s.cur + 1])

(* Store::update_last_restarted_slot(update = true) *)
UpdateRestartSlot(s) ==
  IF s.stored = s.cur THEN RFail(s, "PreconditionsAreNotMet")
  ELSE ROk([s EXCEPT !.stored = s.cur])

Step(s, op, a, r) ==
  CASE op = "enable"  -> Enable(s, r)
    [] op = "disable" -> Disable(s, r)
    [] op = "grant"   -> Grant(s, a, r)
    [] op = "revoke"  -> Revoke(s, a, r)
    [] op = "restart" -> Restart(s)
    [] op = "update"  -> UpdateRestartSlot(s)
    [] OTHER          -> ROk(s)          \* "init": observation only

(* ---- queries; results are "true" / "false" / "err" ---------------------------------------- *)
B(b) == IF b THEN "true" ELSE "false"
(* RoleStore::has_role *)
RoleHas(s, a, r) ==
  IF ~IsMember(s, a) THEN "err"                    \* PermissionDenied
  ELSE IF ~Known(s, r) THEN "err"                  \* NotFound
  ELSE IF ~s.roles[r].en THEN "err"                \* PreconditionsAreNotMet
  ELSE B(s.roles[r].idx \in s.members[a])
HasRestarted(s) == s.stored # s.cur
(* Store::has_role *)
StoreHas(s, a, r) ==
  IF HasRestarted(s)
  THEN (IF RoleHas(s, a, RestartAdmin) = "true" THEN "true" ELSE "err")   \* else StoreOutdated / inner error
  ELSE RoleHas(s, a, r)
(* Store::has_admin_role *)
AdminHas(s, a) ==
  IF a = s.authority THEN "true"
  ELSE IF HasRestarted(s) THEN RoleHas(s, a, RestartAdmin)
  ELSE "false"
RoleStatus(s, r) == IF ~Known(s, r) THEN "absent" ELSE IF s.roles[r].en THEN "enabled" ELSE "disabled"

(* the projection logged with every event, for watched addresses A and role names R *)
Obs(s, A, R) ==
  [role      |-> [r \in R |-> RoleStatus(s, r)],
   member    |-> [a \in A |-> IsMember(s, a)],
   rh        |-> [a \in A |-> [r \in R |-> RoleHas(s, a, r)]],
   sh        |-> [a \in A |-> [r \in R |-> StoreHas(s, a, r)]],
   admin     |-> [a \in A |-> AdminHas(s, a)],
   nroles    |-> NumRoles(s),
   nmembers  |-> NumMembers(s),
   restarted |-> HasRestarted(s)]
=============================================================================
