SPECIFICATION Spec
CONSTANTS
  Slots = {"p", "c", "o"}
  MaxVal = 2
  MaxTok = 1
  Depth = 6
VIEW view
INVARIANTS IGhost IRevs ISupply
CHECK_DEADLOCK FALSE
