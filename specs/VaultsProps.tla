---------------------------- MODULE VaultsProps ----------------------------
(* C22: "After every successful store instruction, each market's recorded balance of each pool token
   covers its liquidity, swap-impact and claimable-fee amounts, and separately covers the total
   position collateral.  The recorded balances of all markets sharing a vault never exceed the
   vault's actual token balance."

   Monitors over the state q read back from the accounts after a successful instruction (M = the
   markets' token meta).  For a single-token (pure) market both sides are the same token and are
   recorded in one balance, so the two sides are summed - exactly the reading of
   validate_market_balances. *)
EXTENDS Vaults

MonPools(q, M) ==
  \A m \in DOMAIN M :
    IF Pure(M, m)
    THEN q.bal[m].long + q.bal[m].short >= Need(q, m, "long") + Need(q, m, "short")
    ELSE /\ q.bal[m].long >= Need(q, m, "long")
         /\ q.bal[m].short >= Need(q, m, "short")

MonCollateral(q, M) ==
  \A m \in DOMAIN M :
    IF Pure(M, m)
    THEN q.bal[m].long + q.bal[m].short >= q.col[m].long + q.col[m].short
    ELSE /\ q.bal[m].long >= q.col[m].long
         /\ q.bal[m].short >= q.col[m].short

MonVault(q, M) == \A t \in DOMAIN q.vault : Attributed(q, M, t) <= q.vault[t]

Solvent(q, M) == MonPools(q, M) /\ MonCollateral(q, M) /\ MonVault(q, M)

(* ---- conformance of a recorded instruction with the routing of the precise specification ----
   e = [op, ok, touched, pre, post, ...].  Facts of the current code that the property does not
   claim (drift only):
     R1  a failed instruction changes nothing
     R2  every vault movement is matched by the recorded balances: for each token the vault changes
         by exactly the sum of the changes of the balances attributed to it (a hop is zero-sum)
     R3  markets the instruction does not name are unchanged
     R4  create_* / close_* of user actions move tokens between users and escrows only, configuration and ADL-state
         updates move nothing: no market balance or pool, no vault
     R5  claim_fees_from_market empties the claimable fee of that side and pays exactly it out
     R6  market_transfer_in adds exactly the amount to vault and balance, pools unchanged *)
R1(e) == ~e.ok => e.post = e.pre
R2(e, M) == e.op = "donate" \/ \A t \in DOMAIN e.pre.vault :
              e.post.vault[t] - e.pre.vault[t] = Attributed(e.post, M, t) - Attributed(e.pre, M, t)
R3(e, M) == \A m \in DOMAIN M : (\A k \in DOMAIN e.touched : e.touched[k] # m) => MarketView(e.post, m) = MarketView(e.pre, m)
IsCreateOrClose(op) == op \in {"create_deposit", "close_deposit", "create_withdrawal", "close_withdrawal",
                               "create_order", "close_order", "create_shift", "close_shift",
                               "create_increase", "close_increase", "create_decrease", "close_decrease", "close_cut_order",
                               "update_market_config", "update_adl_state"}
R4(e) == IsCreateOrClose(e.op) => e.post = e.pre
R5(e, M) == (e.op = "claim_fees" /\ e.ok) =>
              LET m == e.touched[1] IN
              /\ e.post.fee[m][e.side] = 0
              /\ e.pre.vault[Tok(M, m, e.side)] - e.post.vault[Tok(M, m, e.side)] = e.pre.fee[m][e.side]
              /\ e.post.liq[m] = e.pre.liq[m] /\ e.post.imp[m] = e.pre.imp[m]
R6(e, M) == (e.op = "market_transfer_in" /\ e.ok) =>
              LET m == e.touched[1] IN
              /\ e.post.vault[Tok(M, m, e.side)] = e.pre.vault[Tok(M, m, e.side)] + e.amt
              /\ e.post.liq[m] = e.pre.liq[m] /\ e.post.imp[m] = e.pre.imp[m] /\ e.post.fee[m] = e.pre.fee[m]
Conforms(e, M) == R1(e) /\ R2(e, M) /\ R3(e, M) /\ R4(e) /\ R5(e, M) /\ R6(e, M)
=============================================================================
