---------------------------- MODULE BuilderFeeRt ----------------------------
(* C32, settlement bound to code: the REAL `settle_builder_fee` instruction
   (programs/store/src/instructions/builder_fee.rs) on orders of world R2.
   "Settlement transfers exactly min(recorded, escrow balance) to the builder's claim vault, then the
   recorded amount is zero; a second settlement transfers nothing and changes nothing."
   e = [op, variant, ok, err, pre, post, worldSame]; pre / post = [recorded, escrow, vault] read from the
   Order account (builder_fee_amount) and the two SPL token accounts. *)
EXTENDS BuilderFee

MonSettleExact(e) ==
  (e.op = "settle" /\ e.ok /\ e.pre.recorded > 0) =>
    LET m == IF e.pre.recorded <= e.pre.escrow THEN e.pre.recorded ELSE e.pre.escrow IN
    /\ e.post.vault = e.pre.vault + m
    /\ e.post.escrow = e.pre.escrow - m
    /\ e.post.recorded = 0
(* nothing recorded (in particular: a second settlement): nothing moves, nothing changes *)
MonSettleNoop(e) == (e.op = "settle" /\ e.ok /\ e.pre.recorded = 0) => (e.post = e.pre /\ e.worldSame)
MonFailUnchanged(e) == ~e.ok => (e.post = e.pre /\ e.worldSame)
(* an order with an unsettled fee cannot be closed (the fee would be swept to the receiver) *)
MonCloseNeedsSettled(e) == (e.op = "close" /\ e.ok) => e.pre.recorded = 0

Conforms(e) ==
  /\ (e.op = "settle" /\ e.ok) => Settle(e.pre).s = e.post
  /\ (e.op = "settle" /\ e.variant = "good") => e.ok
  /\ (e.op = "settle" /\ e.variant # "good" /\ e.pre.recorded > 0) => ~e.ok
=============================================================================
