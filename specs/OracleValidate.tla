--------------------------- MODULE OracleValidate ---------------------------
(* Oracle price validation of the store program, written like the code:
     states/oracle/validator.rs  PriceValidator::{validate_one, merge_range, finish}
     states/oracle/price_map.rs  SmallPrices::from_price
     states/oracle/mod.rs        try_adjust_price_with_max_deviation_factor, Oracle::with_prices_opts
     states/oracle/feed.rs       PriceFeed::check_and_get_price (provider / feed id / heartbeat)

   Numbers.  A Decimal is (v, m): unit price v * 10^m.  A price p is the flat record
   [minv, minm, maxv, maxm]; a reference price is [some, v, m].  The deviation factor of the code
   has unit 10^20 and is stored as ratio * 10^12; the harness only uses ratio = k * 10^6, i.e.
   factor = k percent, so that  apply_factor(ref, factor) = floor(ref * k / 100)  exactly:
   FUnit = 100 and k is the logged integer.  dev = 0 encodes "no max deviation factor configured".
   u32 overflow of a Decimal value does not occur in the small world and is not modelled. *)
EXTENDS Integers, Sequences

CONSTANT FUnit     \* 100: deviation factors are percents

Pow10(m) == CASE m = 0 -> 1 [] m = 1 -> 10 [] m = 2 -> 100 [] m = 3 -> 1000 [] OTHER -> 10000
U(v, m) == v * Pow10(m)
PMin(p) == U(p.minv, p.minm)
PMax(p) == U(p.maxv, p.maxm)
AbsDiff(a, b) == IF a >= b THEN a - b ELSE b - a
CeilDivP(n, d) == (n + d - 1) \div d          \* n >= 0, d > 0
MinI(a, b) == IF a <= b THEN a ELSE b
MaxI(a, b) == IF a >= b THEN a ELSE b

(* reference price in unit price: explicit, else mid = floor((min + max) / 2) *)
RefOf(p, ref) == IF ref.some THEN U(ref.v, ref.m) ELSE (PMin(p) + PMax(p)) \div 2
(* max deviation = apply_factor(ref, factor) *)
Dev(r, k) == (r * k) \div FUnit
(* the validator rounds the deviation UP to the granularity of price.max *)
DevRounded(r, k, p) == CeilDivP(Dev(r, k), Pow10(p.maxm)) * Pow10(p.maxm)

-----------------------------------------------------------------------------
(* Range state of a validator / oracle: [has, lo, hi, slot].  has = FALSE is the initial
   (i64::MAX, i64::MIN); slot = -1 is None. *)
EmptyRange == [has |-> FALSE, lo |-> 0, hi |-> 0, slot |-> -1]
MergeSlot(a, b) == IF a = -1 THEN b ELSE IF b = -1 THEN a ELSE MinI(a, b)
MergeRange(rs, o) ==
  [has  |-> rs.has \/ o.has,
   lo   |-> IF rs.has /\ o.has THEN MinI(rs.lo, o.lo) ELSE IF o.has THEN o.lo ELSE rs.lo,
   hi   |-> IF rs.has /\ o.has THEN MaxI(rs.hi, o.hi) ELSE IF o.has THEN o.hi ELSE rs.hi,
   slot |-> MergeSlot(rs.slot, o.slot)]

VRes(ok, err, rs) == [ok |-> ok, err |-> err, rs |-> rs]

(* vs = [now, age, range, excess]; cfg = [feed (the provider has a feed config), adj, dev];
   t = [cfg, ots, slot, p, ref] *)
ValidateOne(vs, rs, t) ==
  IF ~t.cfg.feed THEN VRes(FALSE, "NotFound", rs)
  ELSE LET ts == t.ots - t.cfg.adj IN
    IF ts + vs.age < vs.now THEN VRes(FALSE, "MaxPriceAgeExceeded", rs)
    ELSE IF vs.now + vs.excess < t.ots THEN VRes(FALSE, "MaxPriceTimestampExceeded", rs)
    ELSE LET r  == RefOf(t.p, t.ref)
             d  == Dev(r, t.cfg.dev)
             dd == DevRounded(r, t.cfg.dev, t.p)
         IN IF t.cfg.dev # 0 /\ d > 0 /\ dd < AbsDiff(PMax(t.p), r)
              THEN VRes(FALSE, "InvalidPriceFeedPrice", rs)
            ELSE IF t.cfg.dev # 0 /\ d > 0 /\ dd < AbsDiff(PMin(t.p), r)
              THEN VRes(FALSE, "InvalidPriceFeedPrice", rs)
            ELSE VRes(TRUE, "", MergeRange(rs, [has |-> TRUE, lo |-> ts, hi |-> ts, slot |-> t.slot]))

(* finish: Ok(Some(slot, lo, hi)) / Ok(None) / Err.  An empty validator fails: i64::MIN - i64::MAX
   overflows. *)
Finish(vs, rs) ==
  IF ~rs.has THEN [ok |-> FALSE, err |-> "TokenAmountOverflow", some |-> FALSE]
  ELSE IF rs.hi - rs.lo < 0 THEN [ok |-> FALSE, err |-> "InvalidOracleTimestampsRange", some |-> FALSE]
  ELSE IF vs.range < rs.hi - rs.lo THEN [ok |-> FALSE, err |-> "MaxOracleTimestampsRangeExceeded", some |-> FALSE]
  ELSE [ok |-> TRUE, err |-> "", some |-> rs.slot # -1]

(* states/oracle/time.rs + Oracle::validate_time: what an executing operation requires of the loaded price
   set.  rs is the oracle's range (min/max adjusted timestamp, min slot) as set by update_oracle_ts_and_slot;
   tgt = [after, before, slot], each [some, v]  (oracle_updated_after / _before / _after_slot).
   Returns the error name, "" = accepted.  Order as in the code: range sanity, slot, min ts, max ts. *)
ValidateTime(rs, tgt) ==
  IF rs.has /\ rs.hi < rs.lo THEN "InvalidOracleTimestampsRange"
  ELSE IF ~rs.has THEN "InvalidOracleTimestampsRange"                  \* cleared oracle: max = i64::MIN < min = i64::MAX
  ELSE IF rs.slot = -1 THEN "OracleNotUpdated"
  ELSE IF tgt.slot.some /\ rs.slot < tgt.slot.v THEN "InvalidOracleSlot"
  ELSE IF tgt.after.some /\ rs.lo < tgt.after.v THEN "OracleTimestampsAreSmallerThanRequired"
  ELSE IF tgt.before.some /\ tgt.before.v < rs.hi THEN "OracleTimestampsAreLargerThanRequired"
  ELSE ""
NoBound == [some |-> FALSE, v |-> 0]
(* MaxAgeValidator: updated after now - max_age, nothing else *)
MaxAgeTarget(now, maxAge) == [after |-> [some |-> TRUE, v |-> now - maxAge], before |-> NoBound, slot |-> NoBound]

(* SmallPrices::from_price *)
SmallPricesFromPrice(p) ==
  IF p.minm # p.maxm THEN "InvalidArgument"
  ELSE IF p.minv = 0 THEN "InvalidArgument"
  ELSE IF p.maxv < p.minv THEN "InvalidArgument"
  ELSE ""

(* a batch = what set_prices_from_remaining_accounts does for already parsed prices:
   validate_one, then PriceMap::set (from_price), per token, stop at the first error; then finish.
   Result: [n (tokens accepted before the first error), err, fin (finish reached and ok), rs] *)
RECURSIVE BatchFrom(_, _, _, _)
BatchFrom(vs, rs, toks, i) ==
  IF i > Len(toks) THEN
    LET f == Finish(vs, rs) IN [n |-> Len(toks), err |-> f.err, fin |-> f.ok, rs |-> rs]
  ELSE LET v == ValidateOne(vs, rs, toks[i]) IN
    IF ~v.ok THEN [n |-> i - 1, err |-> v.err, fin |-> FALSE, rs |-> rs]
    ELSE LET s == SmallPricesFromPrice(toks[i].p) IN
      IF s # "" THEN [n |-> i - 1, err |-> s, fin |-> FALSE, rs |-> v.rs]
      ELSE BatchFrom(vs, v.rs, toks, i + 1)
Batch(vs, toks) == BatchFrom(vs, EmptyRange, toks, 1)

-----------------------------------------------------------------------------
(* try_adjust_price_with_max_deviation_factor(k, p, ref): [some, p] *)
Adjust(k, p, ref) ==
  LET r      == RefOf(p, ref)
      d      == Dev(r, k)
      maxAdj == AbsDiff(PMax(p), r) > d
      minAdj == AbsDiff(PMin(p), r) > d
      newMax == (r + d) \div Pow10(p.maxm)                    \* rounded down (inward)
      newMin == CeilDivP(r - d, Pow10(p.minm))                \* rounded up (inward)
  IN IF minAdj /\ r - d < 0 THEN [some |-> FALSE, p |-> p]    \* checked_sub fails
     ELSE IF ~maxAdj /\ ~minAdj THEN [some |-> FALSE, p |-> p]
     ELSE [some |-> TRUE,
           p |-> [minv |-> IF minAdj THEN newMin ELSE p.minv, minm |-> p.minm,
                  maxv |-> IF maxAdj THEN newMax ELSE p.maxv, maxm |-> p.maxm]]

(* the price that validate_one then judges *)
AfterAdjust(allowed, k, p, ref) ==
  IF allowed /\ k # 0 THEN (LET a == Adjust(k, p, ref) IN IF a.some THEN a.p ELSE p) ELSE p

-----------------------------------------------------------------------------
(* PriceFeed::check_and_get_price + OraclePrice::parse_from_feed_account for a custom feed.
   fd = [provider, feedId, ts, slot, open, price, min, max]   (integers as stored in the feed)
   tc = [expected, feedIdOf (feed id configured for the feed's provider, -1 none), heartbeat, adj, dev,
         adjust (AllowPriceAdjustment), mult (decimal multiplier of the token's prices), enabled]
   Returns [err, t] where t is the input of ValidateOne. *)
ParseFeed(now, tc, fd, allowClosed) ==
  LET p0  == [minv |-> fd.min, minm |-> tc.mult, maxv |-> fd.max, maxm |-> tc.mult]
      ref == [some |-> TRUE, v |-> fd.price, m |-> tc.mult]
      p1  == AfterAdjust(tc.adjust, tc.dev, p0, ref)
      t   == [cfg |-> [feed |-> TRUE, adj |-> tc.adj, dev |-> tc.dev], ots |-> fd.ts, slot |-> fd.slot,
              p |-> p1, ref |-> ref]
  IN IF fd.provider # tc.expected THEN [err |-> "RequireEqViolated", t |-> t]
     ELSE IF tc.feedIdOf = -1 THEN [err |-> "NotFound", t |-> t]
     ELSE IF fd.feedId # tc.feedIdOf THEN [err |-> "InvalidPriceFeedAccount", t |-> t]
     ELSE IF ~allowClosed /\ ~fd.open THEN [err |-> "MarketNotOpen", t |-> t]
     ELSE IF now > fd.ts /\ now - fd.ts > tc.heartbeat THEN [err |-> "PriceFeedNotUpdated", t |-> t]
     ELSE [err |-> "", t |-> t]

(* Oracle::with_prices_opts over custom feeds: items[i] = [tc, fd, known (token in the token map)].
   Result [err (of loading prices, "" if loaded), n (prices visible to the wrapped operation),
   rs (oracle range visible to it)].  Whatever happens, the oracle is cleared afterwards. *)
RECURSIVE LoadFrom(_, _, _, _, _)
LoadFrom(vs, rs, items, allowClosed, i) ==
  IF i > Len(items) THEN
    LET f == Finish(vs, rs) IN [err |-> f.err, n |-> IF f.ok THEN Len(items) ELSE 0, rs |-> rs]
  ELSE LET it == items[i] IN
    IF ~it.known THEN [err |-> "NotFound", n |-> 0, rs |-> rs]
    ELSE IF ~it.tc.enabled THEN [err |-> "TokenConfigDisabled", n |-> 0, rs |-> rs]
    ELSE LET pr == ParseFeed(vs.now, it.tc, it.fd, allowClosed) IN
      IF pr.err # "" THEN [err |-> pr.err, n |-> 0, rs |-> rs]
      ELSE LET v == ValidateOne(vs, rs, pr.t) IN
        IF ~v.ok THEN [err |-> v.err, n |-> 0, rs |-> rs]
        ELSE LET s == SmallPricesFromPrice(pr.t.p) IN
          IF s # "" THEN [err |-> s, n |-> 0, rs |-> rs]
          ELSE LoadFrom(vs, v.rs, items, allowClosed, i + 1)
Load(vs, items, allowClosed) == LoadFrom(vs, EmptyRange, items, allowClosed, 1)
=============================================================================
