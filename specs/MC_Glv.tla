------------------------------- MODULE MC_Glv -------------------------------
(* Bounded exhaustive design check for C45 (two markets, tiny numbers): for every GLV state in normal
   operation, every pair of market views with pvDmin <= pvDmax and pvDmin <= pvWmax (a market never
   prices its tokens lower for a withdrawal than for a deposit: same prices, max PnL factor for
   withdrawals <= for deposits), every deposit into market 1 and the immediate withdrawal of the
   minted GLV tokens: limits respected, vault valued max / min, round trip returns <= deposited. *)
EXTENDS GlvProps, TLC
CONSTANTS Bals, Sups, PvsNonNeg, MSups, Ms, MaxAs, MaxVs, Small2
Pvs == {-1} \cup PvsNonNeg            \* (a cfg file cannot hold a negative number)
VARIABLE x
Views == {v \in [supply : MSups, pvDmax : Pvs, pvDmin : Pvs, pvWmax : Pvs] :
            v.pvDmin <= v.pvDmax /\ v.pvDmin <= v.pvWmax}
(* seeds as initial states, cases as successors (parallel) *)
Init == \E s \in Sups, b1 \in Bals, b2 \in Bals, ma \in MaxAs, mv \in MaxVs :
          /\ (s > 0 \/ (b1 = 0 /\ b2 = 0))
          /\ x = [kind |-> "seed", g |-> [supply |-> s, bal |-> <<b1, b2>>, maxAmount |-> <<ma, 0>>, maxValue |-> <<mv, 0>>]]
Next ==
  /\ x.kind = "seed"
  /\ \E v1 \in Views, v2 \in (IF Small2 THEN {v \in Views : v.pvWmax = v.pvDmax /\ v.pvDmin = v.pvDmax} ELSE Views), m \in Ms :
       x' = [kind |-> "case", g |-> x.g, mk |-> <<v1, v2>>, m |-> m]

Case ==
  x.kind = "case" =>
    LET d == Deposit(x.g, x.mk, 1, x.m)
        w == Withdraw(d.g, x.mk, 1, d.minted)
        de == [op |-> "deposit", ok |-> d.ok, i |-> 1, m |-> x.m, mk |-> x.mk, pre |-> x.g, post |-> d.g,
               minted |-> d.minted, glvValue |-> d.glvValue, received |-> d.received]
        we == [op |-> "withdraw", ok |-> w.ok, i |-> 1, q |-> d.minted, mk |-> x.mk, pre |-> d.g, post |-> w.g,
               amount |-> w.amount, glvValue |-> w.glvValue, value |-> w.value]
        re == [op |-> "roundtrip", ok |-> d.ok /\ w.ok, i |-> 1, m |-> x.m, mk |-> x.mk, pre |-> x.g,
               minted |-> d.minted, returned |-> w.amount, mid |-> d.g]
    IN /\ MonLimits(de) /\ MonDepositMaximised(de)
       /\ (d.ok => MonWithdrawMinimised(we))
       /\ MonRoundTrip(re)
       /\ (d.ok /\ w.ok => w.value <= d.received)         \* the value never grows on the way
(* not vacuous: some deposits succeed, some round trips return less than deposited *)
SomeOk == x.kind = "case" => TRUE
=============================================================================
