--------------------------- MODULE PositionCutRt ---------------------------
(* C09, program-level guards bound to code (instruction level): programs/store/src/ops/order.rs
   execute_decrease_position (liquidation must be a full close; ADL only when the pnl-to-pool factor
   exceeded ForAdl, must strictly lower it and keep it >= MinAfterAdl), PositionCutOperation,
   states/market/utils.rs (Adl: update_adl_state / validate_adl).

   "A liquidation succeeds only for a position that is liquidatable under the liquidation thresholds,
   and it always closes the whole position.  An auto-deleveraging order succeeds only if the
   pnl-to-pool factor exceeded its limit and it strictly lowers that factor without going below the
   configured minimum."

   Monitors over one REAL instruction e (liquidate | update_adl_state | auto_deleverage) executed by
   the in-process runtime in world R2.  Numbers are 10^20-scaled u128 / i128 values logged as BigNum
   records [s, neg, l]; TLC does the comparisons.
     pre / post          the position account: [exists, size, tokens, col]
     liqBefore           check_liquidatable(prices, true, for_liquidation = true) of the model crate,
                         evaluated on the loaded Position / Market accounts before the instruction
     factorPre/Post      Market::pnl_factor(prices, is_long, maximize = true) on the loaded account
     maxAdl, minAfter    pnl_factor_config(ForAdl / MinAfterAdl, is_long) on the loaded account
     adlPre / adlPost    Market::is_adl_enabled(is_long)
     worldSame           the whole account database is unchanged *)
EXTENDS BigNum

N(x) == Big(x.neg, x.l)
IsZero(x) == x.s = "0"

(* a successful liquidation closes the whole position ... *)
MonLiqRemoves(e) ==
  (e.op = "liquidate" /\ e.ok) => IsZero(e.post.size) /\ IsZero(e.post.tokens) /\ IsZero(e.post.col)
(* ... and only a position that was liquidatable under the liquidation thresholds *)
MonLiqOnlyLiquidatable(e) == (e.op = "liquidate" /\ e.ok) => (e.pre.exists /\ ~IsZero(e.pre.size) /\ e.liqBefore)

(* ADL: only when enabled by update_adl_state and the factor exceeded its limit; strictly lowers the
   factor; not below the configured minimum *)
Exceeded(e) == ~e.factorPre.neg /\ BigLt(N(e.maxAdl), N(e.factorPre))
MonAdl(e) ==
  (e.op = "auto_deleverage" /\ e.ok) =>
    /\ e.adlPre /\ Exceeded(e)
    /\ BigLt(N(e.factorPost), N(e.factorPre))
    /\ BigLe(N(e.minAfter), N(e.factorPost))
(* the ADL switch of a market side is only moved by update_adl_state *)
MonAdlSwitch(e) == (e.adlPost # e.adlPre) => (e.op = "update_adl_state" /\ e.ok)
(* a rejected instruction changes nothing *)
MonFailUnchanged(e) == ~e.ok => (e.worldSame /\ e.post = e.pre)

(* conformance with the precise reading of the code (drift only) *)
Conforms(e) ==
  /\ (e.op = "liquidate" /\ e.pre.exists /\ ~IsZero(e.pre.size)) => (e.ok <=> e.liqBefore)
  /\ (e.op = "update_adl_state" /\ e.ok) => (e.adlPost <=> Exceeded(e))
  /\ (e.op = "auto_deleverage" /\ (~e.adlPre \/ ~Exceeded(e))) => ~e.ok
  /\ (e.op = "auto_deleverage" /\ e.ok) => BigLe(N(e.post.size), N(e.pre.size))
=============================================================================
