------------------------- MODULE Trace_Leaderboard -------------------------
EXTENDS LeaderboardProps, TraceLib
VARIABLE i
Init == i = 0
Next ==
  /\ i < NRec
  /\ i' = i + 1
  /\ LET e == Rec[i'] IN
       /\ Judge(i', << <<"Len", MonLen(e.post)>>, <<"Distinct", MonDistinct(e.post)>>,
                       <<"Sorted", MonSorted(e.post)>>, <<"Latest", MonLatest(e.post)>>,
                       <<"LeftOff", MonLeftOff(e.post)>>, <<"TopWhileNotFull", MonTopWhileNotFull(e.post)>>,
                       <<"EndNotEarlier", MonEndNotEarlier(e)>>, <<"EndCapped", MonEndCapped(e)>> >>)
       /\ Drift(i', Conforms(e), e.op)
Spec == Init /\ [][Next]_i
Done == Emit("DONE", [events |-> TLCGet("stats").diameter - 1])
=============================================================================
