---------------------------- MODULE Trace_GtBank ----------------------------
EXTENDS GtBankProps, TraceLib
VARIABLE i
Init == i = 0
Next ==
  /\ i < NRec
  /\ i' = i + 1
  /\ LET e == Rec[i'] IN
       /\ Judge(i', << <<"NoPanic", ~e.panic>>, <<"PaidFormula", MonPaidFormula(e)>>,
                       <<"NoOverpay", MonNoOverpay(e)>>, <<"Remaining", MonRemaining(e)>>,
                       <<"FloorShare", MonFloorShare(e)>>, <<"LastDrains", MonLastDrains(e)>>,
                       <<"FailedClaim", MonFailedClaim(e)>>, <<"ClaimSucceeds", MonClaimSucceeds(e)>>,
                       <<"DrainedAtEnd", MonDrainedAtEnd(e)>>, <<"Factors", MonFactors(e)>> >>)
       /\ Drift(i', ~e.panic /\ Conforms(e), e.op)
Spec == Init /\ [][Next]_i
Done == Emit("DONE", [events |-> TLCGet("stats").diameter - 1])
=============================================================================
