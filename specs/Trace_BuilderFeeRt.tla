-------------------------- MODULE Trace_BuilderFeeRt --------------------------
(* Trace validation of the runtime binding of C32 (driver h-runtime c32rt). *)
EXTENDS BuilderFeeRt, TraceLib
VARIABLE i
Init == i = 0
Next ==
  /\ i < NRec
  /\ i' = i + 1
  /\ LET e == Rec[i'] IN
       /\ Judge(i', << <<"rt.SettleExact",      MonSettleExact(e)>>,
                       <<"rt.SettleNoop",       MonSettleNoop(e)>>,
                       <<"rt.FailUnchanged",    MonFailUnchanged(e)>>,
                       <<"rt.CloseNeedsSettled", MonCloseNeedsSettled(e)>> >>)
       /\ Drift(i', Conforms(e), e.op)
Spec == Init /\ [][Next]_i
Done == Emit("DONE", [events |-> TLCGet("stats").diameter - 1])
=============================================================================
