INIT Init
NEXT Next
CONSTANTS
  Unit = 10
  MaxRank = 2
INVARIANTS LRange LReferred LFormula LRankLimit LFloor LErrors LMonotone
CHECK_DEADLOCK FALSE
