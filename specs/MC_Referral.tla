----------------------------- MODULE MC_Referral -----------------------------
(* Bounded model of Referral: all histories of at most MaxDepth operations (including rejected
   attempts) among Users x Codes.  The monitors of ReferralProps are checked on every step of
   the design; each distinct state is printed once with the (BFS-shortest) history that reaches it,
   which the driver replays through the real instructions and then attempts EVERY operation from. *)
EXTENDS ReferralProps, Sequences, TLC, Json

CONSTANTS Users, Codes, MaxDepth

VARIABLES st,     \* current state
          prev,   \* state before the last step      (hidden by the VIEW)
          last,   \* the last attempt [op,u,c,v,ok]  (hidden by the VIEW)
          hist    \* accepted operations so far      (hidden by the VIEW)

vars == <<st, prev, last, hist>>
View == st

NoAct == [op |-> "init", u |-> None, c |-> None, v |-> None, ok |-> TRUE]

Init ==
  /\ st = InitState(Users, Codes)
  /\ prev = st
  /\ last = NoAct
  /\ hist = <<>>

Step(a) ==
  LET r == Apply(st, a) IN
  /\ st' = r.st
  /\ prev' = st
  /\ last' = [op |-> a.op, u |-> a.u, c |-> a.c, v |-> a.v, ok |-> r.ok]
  /\ hist' = IF r.ok THEN Append(hist, a) ELSE hist

DoPrepare  == \E a \in Actions(Users, Codes) : a.op = "prepare"  /\ Step(a)
DoCreate   == \E a \in Actions(Users, Codes) : a.op = "create"   /\ Step(a)
DoSet      == \E a \in Actions(Users, Codes) : a.op = "set"      /\ Step(a)
DoTransfer == \E a \in Actions(Users, Codes) : a.op = "transfer" /\ Step(a)
DoCancel   == \E a \in Actions(Users, Codes) : a.op = "cancel"   /\ Step(a)
DoAccept   == \E a \in Actions(Users, Codes) : a.op = "accept"   /\ Step(a)

Next == DoPrepare \/ DoCreate \/ DoSet \/ DoTransfer \/ DoCancel \/ DoAccept

Bound == Len(hist) <= MaxDepth

(* the property on every explored state of the design ... *)
InvNotSelf     == MonNotSelf(st)
InvOneOwner    == MonOneOwner(st)
(* ... and on every explored transition (an action property is evaluated on all generated
   successors, also those leading to an already known state) *)
StepOK ==
  /\ MonWriteOnce(st, st')
  /\ MonNotMutual(st, st')
  /\ MonOwnerChange(st, Pending(st), last', last'.ok, st')
  /\ ~last'.ok => st' = st        \* design fact used by the replay: a rejection changes nothing
StepProps == [][StepOK]_vars

(* one line per distinct state: the history reaching it *)
EmitPath == PrintT("T|" \o ToJson([path |-> hist, st |-> st]))
=============================================================================
