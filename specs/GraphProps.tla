----------------------------- MODULE GraphProps -----------------------------
(* C42 monitors.  A result r is what one call  best_swap_paths(src, skip).to(dst)  of the real code
   (or Search of the specification) returned on the graph g with max_steps = k:
     found   a rate was reported            path   the recommended markets (indices into g.mk)
     cost    the distance the reported rate was computed from (rate = exp(-cost)), an integer here
     rate_ok the reported rate equals exp(-cost) as the code computes it
     err     the search itself returned an error (then nothing is judged) *)
EXTENDS Graph

(* starts at the source, ends at the target, chains markets that share the traded token, repeats no
   market, has at most k steps *)
MonValid(g, k, r) ==
  (~r.err /\ r.found) =>
     LET w == Walk(g, r.src, r.path) IN
     /\ w[1] /\ w[2] = r.dst
     /\ Cardinality(Range(r.path)) = Len(r.path)
     /\ Len(r.path) <= k

(* the reported rate matches the path's estimated cost *)
MonRate(g, k, r) ==
  (~r.err /\ r.found) =>
     LET w == Walk(g, r.src, r.path) IN
     r.rate_ok /\ (w[1] => r.cost = w[3])

(* when no arbitrage cycle exists, no path within the step limit has a strictly better rate; a
   search that recommends nothing claims that there is no path *)
MonBest(g, k, r, neg) ==
  (~r.err /\ ~neg) =>
     IF r.found
     THEN LET w == Walk(g, r.src, r.path) IN w[1] => w[3] <= Best(g, r.src, r.dst, k)
     ELSE Paths(g, r.src, r.dst, k) = {}

(* ---- conformance: the real code returned what the transcription of the code (Graph!CodeSearch) returns ---- *)
ConformsRes(g, k, c, r) ==
  LET t == CodeTo(c, k, r.src, r.dst) IN
  /\ t.found = r.found /\ t.path = r.path /\ t.has_dist = r.has_dist
  /\ (t.has_dist => t.cost = r.cost)
  /\ c.arb = r.arb
Conforms(e) ==
  \A s \in 1..e.g.n : \A sk \in BOOLEAN :
    LET rs == {x \in DOMAIN e.res : e.res[x].src = s /\ e.res[x].skip = sk /\ ~e.res[x].err} IN
    rs # {} => LET c == CodeSearch(e.g, s, e.k, sk) IN \A x \in rs : ConformsRes(e.g, e.k, c, e.res[x])
=============================================================================
