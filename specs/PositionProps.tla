---------------------------- MODULE PositionProps ----------------------------
(* Monitors for C09, C10, C11 over events recorded from the real code (and, in the MC_Position*
   models, over the result of the precise operators of Position.tla).

   Operation event (C09, C10):
     e = [reset, op, tag, px, a, pre, ok, post, rep, adl, rt, panic]
       op   "increase" | "decrease" | "liquidate" | "adl"
       a    [dcoll, dsize, acc, wd, insolvent, cap]      arguments (acc = -1: no acceptable price)
       pre  [m, p]  state before;  post [m, p] state after (= pre when the operation failed)
       rep  the report of the real code (shape ZeroRep)
       adl  [ex, f0, f1]  what the real pnl_factor_exceeded / pnl_factor returned around an ADL
       rt   TRUE on the closing leg of an open/close round trip (C10)
   Pnl event (C11):
     e = [reset, p, m, px1, px2, d, f1, f2, q1, q2, panic]  with px1.i <= px2.i,
       f* = pnl_value(px*, size) (full close), q* = pnl_value(px*, d) (partial close),
       each [ok, pnl, unc, dtok].                                                                *)
EXTENDS Position

-----------------------------------------------------------------------------
(* C09 *)
Healthy(p, m, px, validateMinCollateral) ==
  LET r == CheckLiquidatable(p, m, px, validateMinCollateral, FALSE) IN r.ok /\ r.reason = "None"

(* a successful increase never leaves the position liquidatable at the execution prices
   (re-evaluated here on the logged post-state; mode: min collateral validated, as validate(.., true, true)) *)
MonIncreaseHealthy(e) ==
  (e.op = "increase" /\ e.ok) => Healthy(e.post.p, e.post.m, e.px, TRUE)

(* a successful decrease that leaves the position open never leaves it liquidatable
   (the mode the code documents for decreases: min collateral value not validated) *)
MonDecreaseHealthy(e) ==
  (e.op \in {"decrease", "adl", "liquidate"} /\ e.ok /\ ~e.rep.remove) => Healthy(e.post.p, e.post.m, e.px, FALSE)

(* a liquidation succeeds only for a position that is liquidatable under the liquidation
   thresholds, and it closes the whole position *)
MonLiquidation(e) ==
  (e.op = "liquidate" /\ e.ok) =>
     /\ LET r == CheckLiquidatable(e.pre.p, e.pre.m, e.px, TRUE, TRUE) IN r.ok /\ r.reason # "None"
     /\ e.rep.remove
     /\ e.rep.dsize = e.pre.p.size
     /\ e.post.p.size = 0 /\ e.post.p.tok = 0 /\ e.post.p.coll = 0

(* an ADL order succeeds only if the pnl-to-pool factor exceeded its limit, and it strictly lowers
   the factor without going below the configured minimum (factors re-evaluated on the logged states) *)
MonAdl(e) ==
  (e.op = "adl" /\ e.ok) =>
     LET f0 == PnlFactor(e.pre.m, e.px, e.pre.p.long, TRUE)
         f1 == PnlFactor(e.post.m, e.px, e.pre.p.long, TRUE)
     IN /\ f0.ok /\ f1.ok
        /\ f0.v > 0 /\ f0.v > e.pre.m.c.maxPnlAdl
        /\ f1.v < f0.v
        /\ f1.v >= e.pre.m.c.minPnlAdl

MonNoPanic(e) == ~e.panic

-----------------------------------------------------------------------------
(* conformance of the real code with the precise operators (drift, never a violation) *)
Apply(e) ==
  CASE e.op = "increase"  -> Increase(e.pre.p, e.pre.m, e.px, e.a.dcoll, e.a.dsize, e.a.acc)
    [] e.op = "decrease"  -> Decrease(e.pre.p, e.pre.m, e.px, e.a.dsize, e.a.acc, e.a.wd,
                                      [insolvent |-> e.a.insolvent, liq |-> FALSE, cap |-> e.a.cap])
    [] e.op = "liquidate" -> LiquidationOrder(e.pre.p, e.pre.m, e.px, e.a.dsize, e.a.acc, e.a.wd)
    [] e.op = "adl"       -> AdlOrder(e.pre.p, e.pre.m, e.px, e.a.dsize, e.a.acc, e.a.wd)
    [] OTHER              -> Failed(e.pre.p, e.pre.m)

(* first differing component, "" when the event conforms *)
DriftWhat(e) ==
  LET r == Apply(e) IN
  IF e.panic THEN "panic"
  ELSE IF r.ok # e.ok THEN (IF e.ok THEN "ok:spec-fails" ELSE "ok:spec-succeeds")
  ELSE IF ~e.ok THEN ""
  ELSE IF r.p # e.post.p THEN "position"
  ELSE IF r.m # e.post.m THEN "market"
  ELSE IF r.rep # e.rep THEN "report"
  ELSE IF e.op = "adl" /\ (PnlFactor(e.pre.m, e.px, e.pre.p.long, TRUE).v # e.adl.f0
                           \/ PnlFactor(e.post.m, e.px, e.pre.p.long, TRUE).v # e.adl.f1) THEN "adl-factor"
  ELSE ""
ConformsOp(e) == DriftWhat(e) = ""

-----------------------------------------------------------------------------
(* C10: e1 = the open, e2 = the immediate full close at the same prices and time.
   Everything the trader gets back (output, secondary output, claimable collateral for the user incl.
   the price impact diff, claimable funding) valued at min prices, against the deposit. *)
RoundTripIn(e1)  == e1.a.dcoll * TokPrice(e1.px, e1.pre.p.clong).min
RoundTripOut(e1, e2) ==
  LET cpx == TokPrice(e2.px, e2.pre.p.clong)
      ppx == TokPrice(e2.px, e2.pre.p.long)
  IN (e2.rep.out + e2.rep.uo) * cpx.min + (e2.rep.sec + e2.rep.us) * ppx.min
     + (e1.rep.clL + e2.rep.clL) * e2.px.l.min + (e1.rep.clS + e2.rep.clS) * e2.px.s.min
IsRoundTrip(e1, e2) ==
  /\ e2.rt /\ e1.op = "increase" /\ e2.op = "decrease" /\ e1.ok /\ e2.ok /\ e2.rep.remove
  /\ e1.px = e2.px /\ e1.pre.p.size = 0 /\ e1.pre.p.coll = 0
(* "one base unit of rounding per operation": the open rounds in the collateral token; the close also
   rounds in the pnl token when it differs from the collateral token (the cost left after the collateral
   is exhausted is converted to whole pnl tokens, rounded down) -- one base unit of the dearer of the two *)
RoundTripTol(e1) ==
  LET cpx == TokPrice(e1.px, e1.pre.p.clong)
      ppx == TokPrice(e1.px, e1.pre.p.long)
  IN cpx.min + Max(cpx.min, ppx.min)
MonRoundTrip(e1, e2) ==
  IsRoundTrip(e1, e2) => RoundTripOut(e1, e2) <= RoundTripIn(e1) + RoundTripTol(e1)
RoundTripProfit(e1, e2) == RoundTripOut(e1, e2) - RoundTripIn(e1)

(* the DESIGN's round trip for the same input: the precise Increase; Decrease from the logged pre-state and
   arguments of the open (used to tell a known design-level profit from one the code makes worse) *)
DesignRoundTrip(e1, e2) ==
  LET r1 == Apply(e1)
      r2 == Decrease(r1.p, r1.m, e2.px, r1.p.size, e2.a.acc, e2.a.wd,
                     [insolvent |-> e2.a.insolvent, liq |-> FALSE, cap |-> e2.a.cap])
      d1 == [e1 EXCEPT !.ok = r1.ok, !.rep = r1.rep]
      d2 == [e2 EXCEPT !.ok = r2.ok, !.rep = r2.rep]
      done == r1.ok /\ r2.ok /\ r2.rep.remove
  IN [ok |-> done, profit |-> IF done THEN RoundTripProfit(d1, d2) ELSE 0]

(* governance convention on the position impact caps (not enforced by the code) *)
CapConvention(c) == c.maxPosImp <= c.maxNegImp

-----------------------------------------------------------------------------
(* C11 *)
LePrice(a, b) == a.min <= b.min /\ a.max <= b.max
PnlPair(r1, r2, long) == (r1.ok /\ r2.ok) => (IF long THEN r1.pnl <= r2.pnl ELSE r1.pnl >= r2.pnl)
(* realised pnl of a close is monotone in the index price (full close and the partial close d) *)
MonMonotone(e) ==
  LePrice(e.px1.i, e.px2.i) => PnlPair(e.f1, e.f2, e.p.long) /\ PnlPair(e.q1, e.q2, e.p.long)
(* the same for the pnl before the trader cap *)
UncPair(r1, r2, long) == (r1.ok /\ r2.ok) => (IF long THEN r1.unc <= r2.unc ELSE r1.unc >= r2.unc)
MonMonotoneUncapped(e) ==
  LePrice(e.px1.i, e.px2.i) => UncPair(e.f1, e.f2, e.p.long) /\ UncPair(e.q1, e.q2, e.p.long)

(* credited pnl never exceeds the uncapped pnl; a loss is never changed by the cap *)
CappedOk(r) == r.ok => ((r.unc > 0 => r.pnl <= r.unc) /\ (r.unc <= 0 => r.pnl = r.unc))
MonCapped(e) == CappedOk(e.f1) /\ CappedOk(e.f2) /\ CappedOk(e.q1) /\ CappedOk(e.q2)

(* a partial close of d realises the share of the full-close pnl proportional to the closed size, up
   to rounding: the closed tokens (as reported by the code, either rounding direction) are within one
   token of tok * d / size, and the pnl is within one unit of full * dtok / tok (one signed mul-div) *)
PartialOk(p, d, f, q) ==
  (f.ok /\ q.ok /\ d <= p.size) =>
     /\ Abs(q.dtok * p.size - p.tok * d) < p.size
     /\ Abs(q.pnl * p.tok - f.pnl * q.dtok) < p.tok
     /\ Abs(q.unc * p.tok - f.unc * q.dtok) < p.tok
MonPartial(e) == PartialOk(e.p, e.d, e.f1, e.q1) /\ PartialOk(e.p, e.d, e.f2, e.q2)

(* classification used for known findings: is the MaxForTrader cap active at either price? *)
CapActive(e) == TotalPnl(e.p, e.m, e.px1).active \/ TotalPnl(e.p, e.m, e.px2).active

SameRes(r, s) == r.ok = s.ok /\ (r.ok => r.pnl = s.pnl /\ r.unc = s.unc /\ r.dtok = s.dtok)
ConformsPnl(e) ==
  /\ ~e.panic
  /\ SameRes(e.f1, PnlValue(e.p, e.m, e.px1, e.p.size)) /\ SameRes(e.f2, PnlValue(e.p, e.m, e.px2, e.p.size))
  /\ SameRes(e.q1, PnlValue(e.p, e.m, e.px1, e.d))      /\ SameRes(e.q2, PnlValue(e.p, e.m, e.px2, e.d))
=============================================================================
