SPECIFICATION Spec
POSTCONDITION Done
CHECK_DEADLOCK FALSE
