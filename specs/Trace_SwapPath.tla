--------------------------- MODULE Trace_SwapPath ---------------------------
(* Trace validation for C44.  Every event is ONE real instruction executed by the in-process runtime in
   world R2 (or a direct call of SwapActionParams::validated_primary / secondary_swap_path); `hops` are
   the SwapExecuted events emitted BY THE PROGRAM during the instruction. *)
EXTENDS SwapPathProps, TraceLib
VARIABLE i
Init == i = 0
Next ==
  /\ i < NRec
  /\ i' = i + 1
  /\ LET e == Rec[i'] IN
       /\ Judge(i', << <<"Declared",     MonDeclared(e)>>,
                       <<"RejectCreate", MonRejectCreate(e)>>,
                       <<"RejectExec",   MonRejectExec(e)>>,
                       <<"RejectDirect", MonRejectDirect(e)>>,
                       <<"PaidDeclared", MonPaidDeclared(e)>>,
                       <<"HopBalances",  MonHopBalances(e)>>,
                       <<"VaultTotals",  MonVaultTotals(e)>> >>)
       /\ Drift(i', Conforms(e), e.op)
Spec == Init /\ [][Next]_i
Done == Emit("DONE", [events |-> TLCGet("stats").diameter - 1])
=============================================================================
