-------------------------------- MODULE Glv --------------------------------
(* GLV pricing and composition, transcribed from
     crates/model/src/glv.rs          get_glv_value_for_market, get_market_token_amount_for_glv_value
     programs/store/src/ops/glv.rs    perform_glv_deposit / perform_glv_withdrawal / unchecked_get_glv_value
                                      (the pricing steps on market tokens; no market deposit / swap part)
     programs/store/src/states/glv.rs Glv::insert_market, GlvMarketConfig::validate_balance, update_balance
   A GLV is g = [supply (GLV tokens), bal, maxAmount, maxValue : Seq indexed by market].
   The markets enter through their views mk[i] = [supply, pvDmax, pvDmin, pvWmax]:
     supply = market token supply,
     pvDmax / pvDmin = pool_value(prices, MaxAfterDeposit, maximize = TRUE / FALSE)   (signed),
     pvWmax          = pool_value(prices, MaxAfterWithdrawal, maximize = TRUE)          (signed).
   Pool values themselves are the subject of the market specifications; here they are inputs
   (in traces: computed by the real model code and logged).  Div = usd-to-amount divisor. *)
EXTENDS Num, Sequences
CONSTANT Div

RECURSIVE SumSeq(_, _)
SumSeq(f, n) == IF n = 0 THEN 0 ELSE SumSeq(f, n - 1) + f[n]

(* get_glv_value_for_market: zero balance is worth zero even when the pool value is negative *)
ValueForMarket(bal, pv, supply) ==
  IF bal = 0 THEN Ok(0) ELSE IF pv < 0 THEN Fail ELSE MarketTokenToUsd(bal, pv, supply)

(* unchecked_get_glv_value: sum over all markets of the GLV, balances prior to the operation *)
GlvValue(g, mk, maximize) ==
  LET v == [i \in DOMAIN g.bal |-> ValueForMarket(g.bal[i], IF maximize THEN mk[i].pvDmax ELSE mk[i].pvDmin, mk[i].supply)]
  IN IF \E i \in DOMAIN v : ~v[i].ok THEN Fail ELSE U(SumSeq([i \in DOMAIN v |-> v[i].v], Len(g.bal)))

(* GlvMarketConfig::validate_balance *)
BalanceOK(maxAmount, maxValue, newBal, pv, supply) ==
  IF maxAmount = 0 /\ maxValue = 0 THEN TRUE
  ELSE /\ (maxAmount > 0 => newBal <= maxAmount)
       /\ (maxValue > 0 => /\ pv >= 0
                           /\ LET x == MarketTokenToUsd(newBal, pv, supply) IN x.ok /\ x.v <= maxValue)

NoDeposit(g) == [ok |-> FALSE, g |-> g, minted |-> 0, glvValue |-> 0, received |-> 0]
(* deposit m market tokens of market i: vault at its MAXIMISED value, the received tokens at their
   MINIMISED value, balance limits checked with the maximised pool value *)
Deposit(g, mk, i, m) ==
  LET next == g.bal[i] + m
      gv   == GlvValue(g, mk, TRUE)
      rv   == ValueForMarket(m, mk[i].pvDmin, mk[i].supply)
      mx   == ValueForMarket(m, mk[i].pvDmax, mk[i].supply)
  IN IF next > MaxU \/ ~gv.ok \/ ~rv.ok \/ ~mx.ok THEN NoDeposit(g)
     ELSE IF ~BalanceOK(g.maxAmount[i], g.maxValue[i], next, mk[i].pvDmax, mk[i].supply) THEN NoDeposit(g)
     ELSE LET out == UsdToMarketToken(rv.v, gv.v, g.supply, Div) IN
          IF ~out.ok \/ g.supply + out.v > MaxU THEN NoDeposit(g)
          ELSE [ok |-> TRUE, g |-> [g EXCEPT !.bal[i] = next, !.supply = @ + out.v], minted |-> out.v,
                glvValue |-> gv.v, received |-> rv.v]

NoWithdraw(g) == [ok |-> FALSE, g |-> g, amount |-> 0, glvValue |-> 0, value |-> 0]
(* withdraw q GLV tokens into market i's tokens: vault at its MINIMISED value, the market tokens
   priced with the market's MAXIMISED pool value (fewest tokens) *)
Withdraw(g, mk, i, q) ==
  LET gv == GlvValue(g, mk, FALSE) IN
  IF ~gv.ok \/ q > g.supply THEN NoWithdraw(g)
  ELSE LET val == MarketTokenToUsd(q, gv.v, g.supply) IN
       IF ~val.ok \/ mk[i].pvWmax < 0 THEN NoWithdraw(g)
       ELSE LET amt == UsdToMarketToken(val.v, mk[i].pvWmax, mk[i].supply, Div) IN
            IF ~amt.ok \/ amt.v > g.bal[i] THEN NoWithdraw(g)
            ELSE [ok |-> TRUE, g |-> [g EXCEPT !.bal[i] = @ - amt.v, !.supply = @ - q], amount |-> amt.v,
                  glvValue |-> gv.v, value |-> val.v]

(* Glv::insert_market: the market must use the GLV's long and short tokens (and be new) *)
InsertOK(glong, gshort, mlong, mshort, present) == mlong = glong /\ mshort = gshort /\ ~present
=============================================================================
