------------------------------- MODULE MC_Feed -------------------------------
(* Bounded model of the custom price feed: every sequence of updates (ts 0..MaxTs, prices over
   Levels in all orders, slots and clock values moving in both directions, both modes), explored
   to a fixed point (no depth bound).  `act` is the last step (hidden by the VIEW so that it does
   not multiply states); the monitors of FeedProps are action properties, which TLC evaluates on
   every generated transition. *)
EXTENDS FeedProps, TLC
CONSTANTS Levels, MaxTs, MaxSlot, MaxNow, Excesses
VARIABLES feed, act
vars == <<feed, act>>

Step(pre, u, r) ==
  [pre |-> pre, post |-> r.st, price |-> u.price, min |-> u.min, max |-> u.max, ts |-> u.ts,
   slot |-> u.slot, now |-> u.now, excess |-> u.excess, idem |-> u.idem,
   res |-> r.res, err |-> r.err, same |-> (r.st = pre), panic |-> FALSE]

NoStep == Step(ZeroFeed, [price |-> 0, min |-> 0, max |-> 0, ts |-> 0, slot |-> 0, now |-> 0,
                          excess |-> 0, idem |-> FALSE], [res |-> "ok", err |-> "", st |-> ZeroFeed])

Init == feed = ZeroFeed /\ act = NoStep
Next ==
  \E p \in Levels, mn \in Levels, mx \in Levels, ts \in 0..MaxTs, sl \in 0..MaxSlot,
     now \in 0..MaxNow, ex \in Excesses, idem \in BOOLEAN :
    LET u == [price |-> p, min |-> mn, max |-> mx, ts |-> ts, slot |-> sl, now |-> now,
              excess |-> ex, idem |-> idem]
        r == Update(feed, u)
    IN feed' = r.st /\ act' = Step(feed, u, r)
Spec == Init /\ [][Next]_vars
View == feed

(* the monitors hold on every step of the design *)
PTsMonotone == [][MonTsMonotone(act')]_vars
PStoredValid == [][MonStoredValid(act')]_vars
PRejectedUnchanged == [][MonRejectedUnchanged(act')]_vars
PSkipUnchanged == [][MonSkipUnchanged(act')]_vars
PIdemOlder == [][MonIdemOlder(act')]_vars
PStoresRequest == [][MonStoresRequest(act')]_vars
PConforms == [][Conforms(act')]_vars
(* vacuity: every outcome class occurs *)
InvValid == ValidPrice(feed)
=============================================================================
