--------------------------- MODULE Trace_Exchange ---------------------------
(* FULL conformance of recorded histories (harness/h-model/src/bin/hist.rs: the repository's generic
   model code on the deterministic market) with the composed specification Exchange.tla.

   For EVERY event -- every operation kind, Ok and Err -- the precise action is applied to the logged
   pre-state (the post-state of the previous event; the initial state after a reset) with the logged
   arguments, configuration and prices, and must yield
     * the same outcome (Ok / Err),
     * on Ok:  the logged post-state, field by field, and the logged report fields,
     * on Err: the logged PARTIAL state the code left behind (`part`, captured before the driver
               discards it) -- the non-atomicity of the model crate, made explicit -- and the
               unchanged state after the driver's revert,
     * the pool values (deposit / withdrawal kind) the real code computes on the post-state.
   A mismatch is DRIFT (never a violation); `what` is "<op>:<first differing field>".
   The monitors of ExchangeProps (C04 - C14) are judged on every event as in Trace_MarketHist. *)
EXTENDS ExchangeProps, TraceLib
VARIABLES i, led

Slots == [k \in 1..8 |-> EmptyPos((k - 1) % 4 < 2, (k - 1) % 2 = 0)]
Init0(viOn) == [Empty(viOn) EXCEPT !.ps = Slots]

Core(p) == [long |-> p.long, cl |-> p.cl, size |-> p.size, tok |-> p.tok, col |-> p.col, bf |-> p.bf,
            fps |-> p.fps, cfps |-> p.cfps]
StateOf(e) == [m |-> e.m, vi |-> e.vi, ps |-> [k \in 1..Len(e.ps) |-> Core(e.ps[k])]]
Slot(e) == IF e.arg.pos \in 1..8 THEN e.arg.pos ELSE 1
PartOf(e, s0) == [m |-> e.part.m, vi |-> e.part.vi, ps |-> [s0.ps EXCEPT ![Slot(e)] = e.part.p]]

(* first failing check of a list of <<name, holds>>, "" if all hold *)
First(chk) == IF \A k \in DOMAIN chk : chk[k][2] THEN ""
              ELSE chk[CHOOSE k \in DOMAIN chk : ~chk[k][2] /\ \A j \in 1..(k - 1) : chk[j][2]][1]

MFields == <<"liq", "simp", "fee", "supply", "oi", "oit", "col", "pimp", "bf", "tb", "fps", "cfps", "ffps",
             "now", "ck_f", "ck_b", "ck_d">>
DiffState(a, b) ==
  First([k \in 1..Len(MFields) |-> <<"m." \o MFields[k], a.m[MFields[k]] = b.m[MFields[k]]>>]
        \o << <<"vi.s", a.vi.s = b.vi.s /\ a.vi.s_on = b.vi.s_on>>, <<"vi.p", a.vi.p = b.vi.p /\ a.vi.p_on = b.vi.p_on>> >>
        \o [k \in 1..Len(a.ps) |-> <<"ps", a.ps[k] = b.ps[k]>>])

PosFields == <<"imp", "impAmt", "diff", "xprice", "dtok", "dcoll", "wd", "dsize", "pnl", "unc", "step", "remove",
               "out", "sec", "clL", "clS", "hold", "uo", "us", "feeCost", "fund">>
DiffRep(e, rep) ==
  CASE e.op = "deposit"  -> First(<< <<"minted", rep.minted = e.r.minted>>, <<"impact", rep.impact = e.rx.impact>>,
                                    <<"fees", <<rep.fpl, rep.frl, rep.fps, rep.frs>> = <<e.rx.fpl, e.rx.frl, e.rx.fps, e.rx.frs>> >> >>)
    [] e.op = "withdraw" -> First(<< <<"out", rep.wd = e.r.wd>>,
                                    <<"fees", <<rep.fpl, rep.frl, rep.fps, rep.frs>> = <<e.rx.fpl, e.rx.frl, e.rx.fps, e.rx.frs>> >> >>)
    [] e.op = "swap"     -> First(<< <<"out", rep.swOut = e.r.sw_out>>, <<"impact", rep.impact = e.rx.impact>>,
                                    <<"impactAmt", rep.impactAmt = e.rx.impactAmt>>,
                                    <<"fees", <<rep.fpl, rep.frl>> = <<e.rx.fpl, e.rx.frl>> >> >>)
    [] e.op \in {"increase", "decrease"} ->
         First([k \in 1..Len(PosFields) |-> <<PosFields[k], rep.pos[PosFields[k]] = e.rx[PosFields[k]]>>]
               \o << <<"sw1", rep.sw1 = e.rx.sw1>>, <<"sw2", rep.sw2 = e.rx.sw2>>, <<"ncb", rep.ncb = e.ncb>> >>)
    [] e.op = "distribute" -> First(<< <<"d", rep.d = e.rx.d>>, <<"next", rep.next = e.rx.next>>, <<"dur", rep.dur = e.rx.dur>> >>)
    [] e.op \in {"update_funding", "update_borrowing"} -> First(<< <<"dur", rep.dur = e.rx.dur>> >>)
    [] OTHER -> ""

(* the exchange event of a logged event (s0 = its pre-state) *)
PosRepOf(e) == [imp |-> e.rx.imp, impAmt |-> e.rx.impAmt, diff |-> e.rx.diff, xprice |-> e.rx.xprice, dtok |-> e.rx.dtok,
                dcoll |-> e.rx.dcoll, wd |-> e.rx.wd, dsize |-> e.rx.dsize, pnl |-> e.rx.pnl, unc |-> e.rx.unc,
                step |-> e.rx.step, remove |-> e.rx.remove, out |-> e.rx.out, sec |-> e.rx.sec, clL |-> e.rx.clL,
                clS |-> e.rx.clS, hold |-> e.rx.hold, uo |-> e.rx.uo, us |-> e.rx.us, feeCost |-> e.rx.feeCost,
                fund |-> e.rx.fund]
RepOf(e) == [minted |-> e.r.minted, wd |-> e.r.wd, swOut |-> e.r.sw_out, impact |-> e.rx.impact,
             impactAmt |-> e.rx.impactAmt, fpl |-> e.rx.fpl, frl |-> e.rx.frl, fps |-> e.rx.fps, frs |-> e.rx.frs,
             pos |-> PosRepOf(e), d |-> e.rx.d, next |-> e.rx.next, dur |-> e.rx.dur, sw1 |-> e.rx.sw1, sw2 |-> e.rx.sw2,
             ncb |-> e.ncb]
JOf(e, s0) == [reset |-> e.reset, op |-> e.op, a |-> e.arg, c |-> e.cx, px |-> e.px, ok |-> e.ok, panic |-> e.panic,
               s0 |-> s0, s1 |-> StateOf(e), sp |-> IF e.part.has THEN PartOf(e, s0) ELSE StateOf(e), rep |-> RepOf(e)]
CEvOf(e) == CEv(StateOf(e), e.cx, e.px, e.c11.slot, e.c11.k, e.c11.d, e.c11.f1, e.c11.f2, e.c11.q1, e.c11.q2)

(* every monitor of ExchangeProps on one logged event (Jp = the previous exchange event) *)
Monitors(step, pre, Jp, J, e, ledger, nl) ==
  HistMonitors(step, pre.m, e, ledger, nl)
  \o (IF IsLiqOp(J) THEN MarketMonitors(J) ELSE <<>>)
  \o (IF step /\ J.op = "withdraw" THEN LpRoundTripMonitors(Jp, J) ELSE <<>>)
  \o (IF IsPosOp(J) THEN PositionMonitors(J) ELSE <<>>)
  \o (IF step /\ J.op = "decrease" THEN PosRoundTripMonitors(Jp, J) ELSE <<>>)
  \o (IF e.c11.has THEN PnlMonitors(CEvOf(e)) ELSE <<>>)
  \o (IF J.op = "distribute" THEN DistributionMonitors(J) ELSE <<>>)

(* probes of the real code on the post-state: pool values (both kinds) and pnl_value (C11 probe) *)
DiffPv(e) ==
  LET s == StateOf(e)
      d == PoolValue(s, e.cx, e.px, "deposit", TRUE)
      w == PoolValue(s, e.cx, e.px, "withdrawal", FALSE)
  IN First(<< <<"pv.dep", d.ok = e.pv.dep_ok /\ (d.ok => d.v = e.pv.dep)>>,
              <<"pv.wd",  w.ok = e.pv.wd_ok  /\ (w.ok => w.v = e.pv.wd)>>,
              <<"pnl_value", e.c11.has => PP!ConformsPnl(CEvOf(e))>> >>)

Tag(pfx, w) == IF w = "" THEN "" ELSE pfx \o w
(* "" = the event conforms exactly *)
DriftWhat(s0, e) ==
  IF e.panic THEN "panic"
  ELSE IF e.unit # Unit THEN "unit"
  ELSE IF e.reset THEN (IF StateOf(e) = Init0(e.cx.vi) THEN DiffPv(e) ELSE "init")
  ELSE IF e.op = "probe_funding" THEN ""
  ELSE
    LET r == Apply(s0, e.cx, e.px, e.op, e.arg)
        s1 == StateOf(e)
    IN IF r.ok # e.ok THEN (IF e.ok THEN "ok:spec-fails" ELSE "ok:spec-succeeds")
       ELSE IF e.ok
       THEN First(<< <<Tag("post.", DiffState(r.s, s1)), DiffState(r.s, s1) = "">>,
                     <<Tag("rep.", DiffRep(e, r.rep)), DiffRep(e, r.rep) = "">>,
                     <<DiffPv(e), DiffPv(e) = "">> >>)
       ELSE First(<< <<"revert", s1 = s0>>,
                     <<Tag("part.", DiffState(r.s, PartOf(e, s0))), e.part.has => DiffState(r.s, PartOf(e, s0)) = "">>,
                     <<DiffPv(e), DiffPv(e) = "">> >>)

Init == i = 0 /\ led = Led0
Next ==
  /\ i < NRec
  /\ i' = i + 1
  /\ LET e    == Rec[i']
         step == i' > 1 /\ ~e.reset
         pre  == IF i' > 1 THEN Rec[i' - 1] ELSE Rec[i']
         s0   == IF step THEN StateOf(pre) ELSE Init0(e.cx.vi)
         sp0  == IF i' > 2 /\ ~pre.reset THEN StateOf(Rec[i' - 2]) ELSE Init0(pre.cx.vi)
         nl   == NextLedger(led, e)
         w    == DriftWhat(s0, e)
     IN /\ led' = nl
        /\ Judge(i', Monitors(step, pre, JOf(pre, sp0), JOf(e, s0), e, led, nl))
        /\ Drift(i', w = "", e.op \o ":" \o w)
Spec == Init /\ [][Next]_<<i, led>>
Done == Emit("DONE", [events |-> TLCGet("stats").diameter - 1])
=============================================================================
