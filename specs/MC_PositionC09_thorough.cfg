INIT Init
NEXT Next
CONSTANTS
  Unit = 10
  MaxU = 2147483647
  MaxS = 2147483647
  MarketIds = {1, 2, 3, 4}
  PriceIds = {1, 2, 3, 4, 5}
  Colls = {0, 1, 2, 3, 4, 6, 9, 12, 30, 60}
INVARIANT Inv
CHECK_DEADLOCK FALSE
