INIT Init
NEXT Next
CONSTANTS
  Users = {"u1", "u2", "u3", "u4"}
  Codes = {"c1", "c2", "c3"}
  MaxDepth = 8
VIEW View
CONSTRAINT Bound
INVARIANTS InvNotSelf InvOneOwner
PROPERTY StepProps
CHECK_DEADLOCK FALSE
