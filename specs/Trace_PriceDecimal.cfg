SPECIFICATION Spec
CONSTANTS
  MaxDecimals = 20
  MaxValue = 2147483647
  MaxPrice = 2147483647
  PriceDigits = 10
  MaxU64 = 2147483647
POSTCONDITION Done
CHECK_DEADLOCK FALSE
