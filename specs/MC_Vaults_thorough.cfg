INIT Init
NEXT Next
CONSTANTS
  MaxDepth = 5
  MaxVault = 4
VIEW View
CONSTRAINT Bound
INVARIANTS InvPools InvCollateral InvVault InvDisjoint InvNonNeg
CHECK_DEADLOCK FALSE
