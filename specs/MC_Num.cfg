INIT Init
NEXT Next
CONSTANTS
  Unit = 4
  MaxU = 63
  MaxS = 31
INVARIANTS LMulDivFloor LMulDivCeil LMulDivSigned LRoundUpDiv LRoundUpMag LBound LSignedOps LFactor LMarketToken LPow
CHECK_DEADLOCK FALSE
