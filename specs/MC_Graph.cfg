SPECIFICATION Spec
CONSTANTS
  Tokens = 3
  MaxMarkets = 3
  MaxK = 2
  Costs <- CostsQuick
  PrintMod = 12
INVARIANTS IAll
CHECK_DEADLOCK FALSE
