-------------------------------- MODULE MC_Gt --------------------------------
(* Bounded model of the GT state machine: NUsers users, amounts up to MaxTotal in total, every
   configuration of Cfgs, action sequences up to MaxDepth.  The state monitors are invariants, the
   step monitors action properties (evaluated on every transition; `act` is hidden by the VIEW). *)
EXTENDS GtProps, TLC
CONSTANTS NUsers, MaxTotal, MaxDepth, Amounts, Usds, Steps, Grows, Cost0s, RankTables, Window
VARIABLES cfg, s, depth, act
vars == <<cfg, s, depth, act>>

RankTablesFull == {<<>>, <<1>>, <<2, 4>>, <<1, 3, 5>>}
RankTablesQuick == {<<>>, <<1, 3, 5>>}
Cfgs == [step : Steps, grow : Grows, cost0 : Cost0s, ranks : RankTables, window : {Window}]
NoAct(c) == [cfg |-> c, pre |-> Init0(c, NUsers, 0), post |-> Init0(c, NUsers, 0), op |-> "tick", u |-> 0, n |-> 0,
             ok |-> TRUE, err |-> "", out |-> NoOut, panic |-> FALSE]
Init == \E c \in Cfgs : cfg = c /\ s = Init0(c, NUsers, 0) /\ depth = 0 /\ act = NoAct(c)

Actions ==
  [op : {"mint", "burn", "request"}, u : 1..NUsers, n : Amounts] \cup
  [op : {"mfv"}, u : 1..NUsers, n : Usds] \cup
  [op : {"confirm", "newvault"}, u : {0}, n : {0}] \cup [op : {"tick"}, u : {0}, n : {1}]

Next ==
  /\ depth < MaxDepth
  /\ \E a \in Actions :
       LET r == Apply(cfg, s, a) IN
         /\ r.s.total <= MaxTotal
         /\ s' = r.s /\ depth' = depth + 1 /\ cfg' = cfg
         /\ act' = [cfg |-> cfg, pre |-> s, post |-> r.s, op |-> a.op, u |-> a.u, n |-> a.n, ok |-> r.ok,
                    err |-> r.err, out |-> r.out, panic |-> FALSE]
Spec == Init /\ [][Next]_vars
View == <<cfg, s, depth>>

InvState == StateMons(cfg, s)
PTotalMonotone == [][MonTotalMonotone(act')]_vars
PMintForValue  == [][MonMintForValue(act')]_vars
PMintBurn      == [][MonMintBurnAmount(act')]_vars
=============================================================================
