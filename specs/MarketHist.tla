------------------------------ MODULE MarketHist ------------------------------
(* Histories of market operations (gmsol-model: positions, funding, borrowing) -- state shape and
   the precise, implementation-shaped operators transcribed from
     crates/model/src/action/update_funding_state.rs     (NextFundingFactorPerSecond, Pack, Unpack, UpdateFunding)
     crates/model/src/params/fee.rs                      (FundingChange, kink model)
     crates/model/src/market/borrowing.rs, utils.rs      (BorrowingFactorPerSecond, TotalPendingBorrowingFees)
     crates/model/src/position.rs                        (UpdateTotalBorrowing, ApplyOIDelta, SizeDeltaInTokens)
   Every operator returns a record with an `ok` field; ok = FALSE is the code's Err / None.

   State shape (exactly what the driver harness/h-model/src/bin/hist.rs logs after every operation;
   two-element tuples are <<long, short>>, 2x2 tuples are [side][collateral token]):
     m  = [liq, simp, fee : <<l,s>>,  oi, oit, col : 2x2,  pimp,  bf, tb : <<l,s>>,
           fps, cfps : 2x2,  supply, now, ck_f, ck_b, ck_d (-1 = never used), ffps]
     ps = sequence of positions [open, long, cl, size, tok, col, bf, fps, cfps : <<l,s>>, ...]
     c  = configuration [f_exp, f_factor, f_max, f_min, f_inc, f_dec, f_stable, f_decthr,
           b_factor, b_exp : <<l,s>>, b_skip, k_opt, k_base, k_above, oi_reserve, max_oi, ignore_oi, adj]
     px = prices [imin, imax, lmin, lmax, smin, smax]                                         *)
EXTENDS Num, Sequences

Ix(b) == IF b THEN 1 ELSE 2                 \* index of <<long, short>>
RECURSIVE SumSeq(_)
SumSeq(s) == IF s = <<>> THEN 0 ELSE Head(s) + SumSeq(Tail(s))

SideOI(m, long)  == m.oi[Ix(long)][1] + m.oi[Ix(long)][2]
SideOIT(m, long) == m.oit[Ix(long)][1] + m.oit[Ix(long)][2]

-----------------------------------------------------------------------------
(* Funding *)
FFail == [ok |-> FALSE, rate |-> 0, lp |-> FALSE, next |-> 0, ch |-> "fail"]

(* FundingFeeParams::change *)
FundingChange(c, stored, oiL, oiS, f) ==
  LET same == (stored > 0 /\ oiL > oiS) \/ (stored < 0 /\ oiL < oiS) IN
  IF same THEN (IF f > c.f_stable THEN "inc" ELSE IF f < c.f_decthr THEN "dec" ELSE "none")
  ELSE "inc"

(* UpdateFundingState::next_funding_factor_per_second: (rate, longs_pay, next stored rate) *)
NextFundingFactorPerSecond(c, stored, dt, oiL, oiS) ==
  LET diff == Diff(oiL, oiS) IN
  IF diff = 0 /\ c.f_inc = 0 THEN [ok |-> TRUE, rate |-> 0, lp |-> TRUE, next |-> 0, ch |-> "zero"]
  ELSE IF oiL + oiS > MaxU \/ oiL + oiS = 0 THEN FFail
  ELSE
    LET e == ApplyExponentFactor(diff, c.f_exp)
        f == IF e.ok THEN DivToFactor(e.v, oiL + oiS, FALSE) ELSE Fail
    IN
    IF ~f.ok THEN FFail
    ELSE IF c.f_inc = 0 THEN
      (* non-adaptive: the configured minimum is NOT applied here (as in GMX) *)
      LET r == ApplyFactor(f.v, c.f_factor) IN
      IF ~r.ok THEN FFail
      ELSE [ok |-> TRUE, rate |-> Min(r.v, c.f_max), lp |-> oiL > oiS, next |-> 0, ch |-> "fixed"]
    ELSE
      LET ch  == FundingChange(c, stored, oiL, oiS, f.v)
          mag == Abs(stored)
          nx  == CASE ch = "inc" ->
                        LET iv == ApplyFactor(f.v, c.f_inc) IN
                        IF ~iv.ok \/ iv.v * dt > MaxS THEN Fail
                        ELSE S(stored + (IF oiL < oiS THEN -(iv.v * dt) ELSE iv.v * dt))
                   [] ch = "dec" /\ mag # 0 ->
                        IF c.f_dec * dt > MaxU THEN Fail
                        ELSE IF mag <= c.f_dec * dt THEN Ok(Sgn(stored))
                        ELSE WithSign(mag - c.f_dec * dt, stored < 0)
                   [] OTHER -> Ok(stored)
          b0  == IF nx.ok THEN BoundMagnitude(nx.v, 0, c.f_max) ELSE Fail
          b1  == IF b0.ok THEN BoundMagnitude(b0.v, c.f_min, c.f_max) ELSE Fail
      IN IF ~b1.ok THEN FFail
         ELSE [ok |-> TRUE, rate |-> Abs(b1.v), lp |-> b1.v > 0, next |-> b0.v, ch |-> ch]

(* pack_to_funding_amount_per_size / unpack_to_funding_amount_delta *)
Pack(adj, value, oi, price, up) ==
  IF value = 0 \/ oi = 0 THEN Ok(0)
  ELSE LET x == IF up THEN MulDivCeil(value, adj * Unit, oi) ELSE MulDivFloor(value, adj * Unit, oi) IN
       IF ~x.ok THEN Fail
       ELSE IF up THEN RoundUpDiv(x.v, price)
       ELSE IF price = 0 THEN Fail ELSE Ok(x.v \div price)

Unpack(adj, latest, mine, size, up) ==
  IF latest < mine THEN Fail
  ELSE IF up THEN MulDivCeil(size, latest - mine, adj * Unit)
  ELSE MulDivFloor(size, latest - mine, adj * Unit)

(* pending funding fees of a position: [ok, fee (collateral token), claim : <<long tok, short tok>>] *)
PendingFunding(m, c, p) ==
  LET s == Ix(p.long)
      a == Unpack(c.adj, m.fps[s][Ix(p.cl)], p.fps, p.size, TRUE)
      l == Unpack(c.adj, m.cfps[s][1], p.cfps[1], p.size, FALSE)
      h == Unpack(c.adj, m.cfps[s][2], p.cfps[2], p.size, FALSE)
  IN [ok |-> a.ok /\ l.ok /\ h.ok, fee |-> a.v, claim |-> <<l.v, h.v>>]

(* UpdateFundingState::execute: new indices and stored rate after `dt` seconds *)
UpdateFunding(m, c, px, dt) ==
  LET oiL == SideOI(m, TRUE)
      oiS == SideOI(m, FALSE) IN
  IF oiL = 0 \/ oiS = 0 THEN [ok |-> TRUE, fps |-> m.fps, cfps |-> m.cfps, ffps |-> 0]
  ELSE
    LET r == NextFundingFactorPerSecond(c, m.ffps, dt, oiL, oiS) IN
    IF ~r.ok THEN [ok |-> FALSE, fps |-> m.fps, cfps |-> m.cfps, ffps |-> m.ffps]
    ELSE
      LET pay  == Ix(r.lp)
          rcv  == Ix(~r.lp)
          pOI  == IF r.lp THEN oiL ELSE oiS
          rOI  == IF r.lp THEN oiS ELSE oiL
          fv   == ApplyFactor(pOI, dt * r.rate)
          val(t) == IF fv.ok THEN MulDivFloor(fv.v, m.oi[pay][t], pOI) ELSE Fail
          price(t) == IF t = 1 THEN px.lmax ELSE px.smax
          dP(t) == IF val(t).ok THEN Pack(c.adj, val(t).v, m.oi[pay][t], price(t), TRUE) ELSE Fail
          dR(t) == IF val(t).ok THEN Pack(c.adj, val(t).v, rOI, price(t), FALSE) ELSE Fail
      IN [ok   |-> fv.ok /\ \A t \in 1..2 : dP(t).ok /\ dR(t).ok,
          fps  |-> [s \in 1..2 |-> [t \in 1..2 |-> m.fps[s][t] + (IF s = pay THEN dP(t).v ELSE 0)]],
          cfps |-> [s \in 1..2 |-> [t \in 1..2 |-> m.cfps[s][t] + (IF s = rcv THEN dR(t).v ELSE 0)]],
          ffps |-> r.next]

-----------------------------------------------------------------------------
(* Borrowing *)
ReservedValue(m, px, long) == IF long THEN SideOIT(m, TRUE) * px.imax ELSE SideOI(m, FALSE)
PoolValueSide(m, px, long) == IF long THEN m.liq[1] * px.lmin ELSE m.liq[2] * px.smin

(* MarketUtils::usage_factor *)
UsageFactor(m, c, long, reserved, pool) ==
  LET mr == ApplyFactor(pool, c.oi_reserve)
      ru == IF mr.ok THEN DivToFactor(reserved, mr.v, FALSE) ELSE Fail
      ou == DivToFactor(SideOI(m, long), c.max_oi, FALSE)
  IN IF ~ru.ok THEN Fail
     ELSE IF c.ignore_oi THEN ru
     ELSE IF ~ou.ok THEN Fail
     ELSE IF ru.v > ou.v THEN ru ELSE ou

(* BorrowingFeeKinkModelParams::borrowing_factor_per_second (k_opt # 0) *)
KinkBorrowingFactor(m, c, long, reserved, pool) ==
  LET u == UsageFactor(m, c, long, reserved, pool)
      r == IF u.ok THEN ApplyFactor(u.v, c.k_base) ELSE Fail
  IN IF ~r.ok THEN Fail
     ELSE IF u.v > c.k_opt /\ Unit > c.k_opt THEN
       LET add == MulDivFloor(Max(c.k_above - c.k_base, 0), u.v - c.k_opt, Unit - c.k_opt) IN
       IF ~add.ok THEN Fail ELSE U(r.v + add.v)
     ELSE r

(* BorrowingFeeMarketExt::borrowing_factor_per_second *)
BorrowingFactorPerSecond(m, c, px, long) ==
  LET reserved == ReservedValue(m, px, long)
      oiL == SideOI(m, TRUE)
      oiS == SideOI(m, FALSE)
      pool == PoolValueSide(m, px, long)
  IN IF reserved = 0 THEN Ok(0)
     ELSE IF c.b_skip /\ ((long /\ oiL < oiS) \/ (~long /\ oiS < oiL)) THEN Ok(0)
     ELSE IF pool = 0 THEN Fail
     ELSE IF c.k_opt # 0 THEN KinkBorrowingFactor(m, c, long, reserved, pool)
     ELSE LET e == ApplyExponentFactor(reserved, c.b_exp[Ix(long)])
              f == IF e.ok THEN DivToFactor(e.v, pool, FALSE) ELSE Fail
          IN IF ~f.ok THEN Fail ELSE ApplyFactor(f.v, c.b_factor[Ix(long)])

NextCumulativeBorrowingFactor(m, c, px, long, dt) ==
  LET r == BorrowingFactorPerSecond(m, c, px, long) IN
  IF ~r.ok THEN Fail ELSE U(m.bf[Ix(long)] + r.v * dt)

(* BorrowingFeeMarketExt::total_pending_borrowing_fees with `dt` seconds passed on the borrowing clock *)
TotalPendingBorrowingFees(m, c, px, long, dt) ==
  LET nc == NextCumulativeBorrowingFactor(m, c, px, long, dt)
      t  == IF nc.ok THEN ApplyFactor(SideOI(m, long), nc.v) ELSE Fail
  IN IF ~t.ok \/ t.v < m.tb[Ix(long)] THEN Fail ELSE Ok(t.v - m.tb[Ix(long)])

PassedBorrowing(m) == IF m.ck_b < 0 THEN 0 ELSE m.now - m.ck_b
PassedFunding(m)   == IF m.ck_f < 0 THEN 0 ELSE m.now - m.ck_f

(* PositionMutExt::update_total_borrowing: applied BEFORE the position's size changes *)
BorrowingOf(size, factor) == FloorDiv(size * factor, Unit)
UpdateTotalBorrowing(tb, size, factor, nextSize, nextFactor) ==
  U(tb + BorrowingOf(nextSize, nextFactor) - BorrowingOf(size, factor))

(* PositionExt::pending_borrowing_fee_value *)
PendingBorrowingFeeValue(m, p) ==
  IF m.bf[Ix(p.long)] < p.bf THEN Fail ELSE ApplyFactor(p.size, m.bf[Ix(p.long)] - p.bf)

-----------------------------------------------------------------------------
(* Open-interest bookkeeping *)

(* PositionExt::size_delta_in_tokens *)
SizeDeltaInTokens(long, size, tok, dusd) ==
  IF dusd = size THEN Ok(tok)
  ELSE IF long THEN MulDivCeil(tok, dusd, size) ELSE MulDivFloor(tok, dusd, size)

Set22(x, s, t, v) == [a \in 1..2 |-> [b \in 1..2 |-> IF a = s /\ b = t THEN v ELSE x[a][b]]]

(* PositionMutExt::update_open_interest: a zero USD delta is a no-op for BOTH pools *)
ApplyOIDelta(m, c, long, cl, dusd, dtok) ==
  IF dusd = 0 THEN [ok |-> TRUE, oi |-> m.oi, oit |-> m.oit]
  ELSE LET s == Ix(long)
           t == Ix(cl)
           a == m.oi[s][t] + dusd
           b == m.oit[s][t] + dtok
           total == a + m.oi[s][3 - t]
       IN IF a < 0 \/ b < 0 \/ (dusd > 0 /\ total > c.max_oi)
          THEN [ok |-> FALSE, oi |-> m.oi, oit |-> m.oit]
          ELSE [ok |-> TRUE, oi |-> Set22(m.oi, s, t, a), oit |-> Set22(m.oit, s, t, b)]

(* DecreasePosition::check_partial_close, size rules only: promote to a full close when the rest would be
   below the minimum size or the token size would be driven to zero *)
PromotedToFullClose(long, size, tok, dusd, minSize) ==
  dusd < size /\ (size - dusd < minSize
                  \/ (SizeDeltaInTokens(long, size, tok, dusd).ok
                      /\ tok <= SizeDeltaInTokens(long, size, tok, dusd).v))
=============================================================================
