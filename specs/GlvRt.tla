------------------------------- MODULE GlvRt -------------------------------
(* C45 bound to code at instruction level: programs/store/src/ops/glv.rs and states/glv.rs executed by
   the REAL initialize_glv / insert_glv_market / update_glv_market_config / create, execute, close of
   GLV deposits and withdrawals in world R2.
   "Every market in a GLV has the GLV's long and short tokens.  After a GLV deposit, a market's token
   balance in the GLV respects that market's configured maximum amount and value.  ... a deposit
   immediately followed by a withdrawal never returns more market tokens than were deposited."
   e = [op, ok, glong, gshort, mlong, mshort, m, minted, returned, pre, post, balValue, worldSame];
   pre / post = [bal, maxAmount, maxValue, supply, hasSupply]: bal = amount held by the GLV's vault token
   account of the market token, limits from the Glv account; balValue = value of post.bal market tokens
   returned by the program's get_market_token_value (MaxAfterDeposit, maximised); maxValue / balValue are
   10^20-scaled u128 values as BigNum records. *)
EXTENDS BigNum

N(x) == Big(x.neg, x.l)

(* a market enters a GLV (at initialisation or by insert_glv_market) only with the GLV's token pair *)
MonInsert(e) == (e.op \in {"init", "insert"} /\ e.ok) => (e.mlong = e.glong /\ e.mshort = e.gshort)

(* after an executed deposit the balance respects the configured maxima *)
MonLimits(e) ==
  (e.op = "deposit" /\ e.ok) =>
    /\ e.post.maxAmount > 0 => e.post.bal <= e.post.maxAmount
    /\ e.post.maxValue.s # "0" => BigLe(N(e.balValue), N(e.post.maxValue))

(* deposit m market tokens, withdraw every GLV token minted for them: the vault gives back at most m.
   Normal operation: the GLV has supply, or holds nothing. *)
MonRoundTrip(e) ==
  (e.op = "roundtrip" /\ e.ok /\ (e.pre.hasSupply \/ e.pre.bal = 0)) => e.returned <= e.m

(* a deposit that is not executed (rejected or cancelled) leaves the vault as it was *)
MonNotExecuted(e) == (e.op = "deposit" /\ ~e.ok) => (e.post.bal = e.pre.bal /\ e.minted = 0)
MonFailUnchanged(e) == (e.op \in {"init", "insert"} /\ ~e.ok) => e.worldSame

(* conformance (drift only): the insert rule is the ONLY reason to refuse a new market; an executed
   deposit mints *)
Conforms(e) ==
  /\ (e.op = "insert" /\ e.err \notin {"ok", "PreconditionsAreNotMet"}) => ~(e.mlong = e.glong /\ e.mshort = e.gshort)
  /\ (e.op = "deposit" /\ e.ok /\ e.m > 0) => e.minted > 0
  /\ (e.op = "deposit" /\ e.ok) => e.post.bal >= e.pre.bal
=============================================================================
