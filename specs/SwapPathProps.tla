--------------------------- MODULE SwapPathProps ---------------------------
(* C44: "An action's swap executes exactly the declared markets in order, each step converting the
   previous step's output token, and ends in the declared output token or the action fails.  Paths
   with duplicate markets or no-op steps are rejected at creation and at execution.  Every hop moves
   exactly the swapped amount between the recorded balances of the markets involved."

   Monitors over one recorded instruction e = [op, ok, astate, dir, current, path, path2, tin, tin2,
   tout, tout2, amt, amt2, hops, pre, post, meta, forged]: path / path2 are the DECLARED primary /
   secondary swap paths (as stored in the action), hops the SwapExecuted events the program emitted
   during the instruction, pre / post the Vaults state read from the accounts, astate the action's
   state after the instruction. *)
EXTENDS SwapPath

IsExecute(e) == e.op \in {"execute_deposit", "execute_withdrawal", "execute_order"}
IsCreate(e)  == e.op \in {"create_deposit", "create_withdrawal", "create_order"}
Executed(e)  == IsExecute(e) /\ e.ok /\ e.astate = "completed"
Bad(e) == ~NoDup(e.path) \/ ~NoDup(e.path2) \/ HasNoOp(e.meta, e.path) \/ HasNoOp(e.meta, e.path2)

(* sides that actually swap: a side with a zero input amount is skipped (for a withdrawal the input
   of a side is what the market pays out on that side - unknown here, so a side may be absent) *)
N1(e) == IF e.dir = "from" \/ e.amt > 0 THEN Len(e.path) ELSE 0
Cut(hs, a, b) == [i \in 1..(b - a + 1) |-> hs[a + i - 1]]
TwoChains(e, n1, n2) ==
  /\ Len(e.hops) = n1 + n2
  /\ ChainOK(e.meta, Cut(e.hops, 1, n1), IF n1 = 0 THEN <<>> ELSE e.path, e.tin, IF n1 = 0 THEN e.tin ELSE e.tout)
  /\ ChainOK(e.meta, Cut(e.hops, n1 + 1, n1 + n2), IF n2 = 0 THEN <<>> ELSE e.path2, e.tin2, IF n2 = 0 THEN e.tin2 ELSE e.tout2)

(* executed markets = declared, in order, each consuming the previous output, ending in the declared
   token; the first step consumes the declared input amount *)
MonDeclared(e) ==
  Executed(e) =>
    /\ EndTok(e.meta, e.path, e.tin) = e.tout
    /\ IF e.dir = "order"
       THEN /\ TwoChains(e, Len(e.path), 0)
            /\ Len(e.hops) >= 1 /\ e.hops[1].ain = e.amt
       ELSE IF e.dir = "into"
       THEN LET n1 == IF e.amt > 0 THEN Len(e.path) ELSE 0
                n2 == IF e.amt2 > 0 THEN Len(e.path2) ELSE 0 IN
            /\ TwoChains(e, n1, n2)
            /\ EndTok(e.meta, e.path2, e.tin2) = e.tout2
            /\ n1 > 0 => e.hops[1].ain = e.amt
            /\ n2 > 0 => e.hops[n1 + 1].ain = e.amt2
       ELSE \/ TwoChains(e, Len(e.path), Len(e.path2))
            \/ TwoChains(e, Len(e.path), 0)
            \/ TwoChains(e, 0, Len(e.path2))
            \/ e.hops = <<>>

(* the declared walk does not end in the declared output token (each step converting the previous
   step's output; an empty path converts nothing) *)
WrongEnd(e) ==
  \/ EndTok(e.meta, e.path, e.tin) # e.tout
  \/ e.dir \in {"into", "from"} /\ EndTok(e.meta, e.path2, e.tin2) # e.tout2
(* duplicate markets / no-op steps / a walk that does not end in the declared token: rejected at creation ... *)
MonRejectCreate(e) == (IsCreate(e) /\ (Bad(e) \/ WrongEnd(e))) => ~e.ok
(* ... and at execution (the action is not executed: the instruction fails or the action is cancelled) *)
MonRejectExec(e) == (IsExecute(e) /\ (Bad(e) \/ WrongEnd(e))) => ~Executed(e)
(* what an executed order / withdrawal pays out of the vaults is of a declared output token *)
MonPaidDeclared(e) ==
  (Executed(e) /\ e.dir \in {"order", "from"}) =>
    \A t \in DOMAIN e.pre.vault : e.post.vault[t] < e.pre.vault[t] => t \in {e.tout, e.tout2}
(* ... and by the parameter validation itself *)
MonRejectDirect(e) == (e.op \in {"direct_primary", "direct_secondary"} /\ ~NoDup(e.path)) => ~e.ok

(* every hop moves exactly the swapped amount between the recorded balances *)
FinalOf(e, side) ==
  LET n1 == IF e.amt > 0 THEN Len(e.path) ELSE 0
      n2 == IF e.amt2 > 0 THEN Len(e.path2) ELSE 0 IN
  IF side = 1 THEN (IF e.amt = 0 THEN 0 ELSE IF n1 = 0 THEN e.amt ELSE e.hops[n1].aout)
  ELSE (IF e.amt2 = 0 THEN 0 ELSE IF n2 = 0 THEN e.amt2 ELSE e.hops[n1 + n2].aout)
MonHopBalances(e) ==
  Executed(e) =>
    \A m \in DOMAIN e.meta : \A t \in DOMAIN e.pre.vault :
      LET d == BalDelta(e.pre, e.post, e.meta, m, t)
          h == HopDelta(e.hops, m, t) IN
      IF e.dir = "order" THEN d = h
      ELSE IF e.dir = "into"
      THEN d = h + (IF m = e.current
                    THEN (IF e.tout = t THEN FinalOf(e, 1) ELSE 0) + (IF e.tout2 = t THEN FinalOf(e, 2) ELSE 0)
                    ELSE 0)
      ELSE m # e.current => d = h

(* hops never touch the vaults: per token, the vault changes by exactly the net change of the
   balances attributed to it *)
MonVaultTotals(e) ==
  (e.ok /\ e.op # "donate") =>
    \A t \in DOMAIN e.pre.vault :
      e.post.vault[t] - e.pre.vault[t] = Attributed(e.post, e.meta, t) - Attributed(e.pre, e.meta, t)

(* ---- conformance with the precise specification (drift only) ---- *)
ConformsCreate(e) ==
  IsCreate(e) /\ e.err \in {"ok", "InvalidSwapPath", "InvalidSwapPathLength", "TokenMintMismatched"} =>
    (e.ok <=> IF e.op = "create_order" THEN ValidCreateOrder(e.meta, e.current, e.path, e.tin, e.tout)
              ELSE ValidCreateSides(e.meta, e.path, e.path2, e.tin, e.tin2, e.tout, e.tout2))
ConformsExec(e) ==
  (IsExecute(e) /\ e.ok) =>
    (~(CurrentAtEndsOnly(e.path, e.current) /\ CurrentAtEndsOnly(e.path2, e.current)) => e.astate # "completed")
ConformsDirect(e) == e.op \in {"direct_primary", "direct_secondary"} => (e.ok <=> NoDup(e.path))
Conforms(e) == ConformsCreate(e) /\ ConformsExec(e) /\ ConformsDirect(e) /\ (~e.ok => e.post = e.pre)
=============================================================================
