---------------------------- MODULE MC_Revertible ----------------------------
(* Bounded model: Slots (one-field values 0..MaxVal), every sequence of begin / read / write /
   commit / abandon up to Depth, including repeated abandonment and commits without writes.  The
   monitors are asserted on every generated transition; the ghost state must be the abstraction of
   the buffer (IGhost).  `hist` is hidden by the VIEW (= shortest path to each state); every
   generated transition is printed as path + operation for replay on a real Market. *)
EXTENDS RevertibleProps, Json
CONSTANTS Slots, MaxVal, MaxTok, Depth
VARIABLES st, g, hist
vars == <<st, g, hist>>
view == <<st, g>>

Zero == [s \in Slots |-> <<0>>]
Init == st = InitState(Slots, Zero) /\ g = Ghost0(Slots) /\ hist = <<>>

Do(op, s, x) ==
  LET st1 == Step(st, op, s, 1, x)
      val == IF op = "read" THEN ReadVal(st, s) ELSE IF op = "write" THEN ReadVal(st1, s) ELSE <<>>
      e   == [op |-> op, slot |-> s, field |-> 1, fv |-> x, ok |-> TRUE, val |-> val,
              tok |-> IF op = "commit" THEN CommitTok(st) ELSE <<>>]
      g1  == GhostNext(g, e, st.storage)
  IN /\ Len(hist) < Depth
     /\ Assert(AllHold(Monitors(g, g1, e, st.storage, st1.storage)), <<"monitor fails", e, hist>>)
     /\ st' = st1
     /\ g' = g1
     /\ hist' = Append(hist, [op |-> op, slot |-> s, field |-> 1, fv |-> x])
     /\ PrintT("P|" \o ToJson(hist'))

DoBegin   == ~st.open /\ Do("begin", "", 0)
DoRead    == st.open /\ \E s \in Slots : Do("read", s, 0)
DoWrite   == st.open /\ \E s \in Slots, x \in 0..MaxVal : Do("write", s, x)
DoMint    == st.open /\ st.toMint < MaxTok /\ Do("mint", "", 1)
DoBurn    == st.open /\ st.toBurn < MaxTok /\ Do("burn", "", 1)
DoCommit  == st.open /\ Do("commit", "", 0)
DoAbandon == st.open /\ Do("abandon", "", 0)
Next == DoBegin \/ DoRead \/ DoWrite \/ DoMint \/ DoBurn \/ DoCommit \/ DoAbandon
Spec == Init /\ [][Next]_vars

IGhost ==
  /\ g.open = st.open
  /\ st.open => \A s \in Slots : /\ (g.w[s] # None) <=> Dirty(st, s)
                                 /\ g.w[s] # None => st.buffer[s] = g.w[s]
ISupply == g.mint = st.toMint /\ g.burn = st.toBurn
IRevs == \A s \in Slots : st.slotRev[s] <= st.rev
=============================================================================
