------------------------------ MODULE MC_Vaults ------------------------------
(* Bounded model of Vaults: three markets (two sharing both vaults, one single-token market), the
   instruction kinds with their transfer routing, small amounts.  The monitors of VaultsProps are
   invariants of the design.  Every distinct state is printed once with the (BFS-shortest) script
   that reaches it; the driver turns each abstract operation into the real instructions
   (create / execute / close, claim_fees_from_market, market_transfer_in) with scaled amounts. *)
EXTENDS VaultsProps, Sequences, TLC, Json

CONSTANTS MaxDepth, MaxVault

Ms == {"M1", "M2", "MP"}
Ts == {"A", "B"}
Meta == [m \in Ms |-> IF m = "MP" THEN [long |-> "B", short |-> "B"] ELSE [long |-> "A", short |-> "B"]]

VARIABLES st, hist
vars == <<st, hist>>
View == st

Init == st = InitState(Ms, Ts) /\ hist = <<>>

Amts == {1, 2}
Log(o) == hist' = Append(hist, o)
O(op, m, m2, side, a) == [op |-> op, m |-> m, m2 |-> m2, side |-> side, a |-> a]

DoDeposit == \E m \in Ms, side \in Sides, a \in Amts, f \in {0, 1} :
  /\ st' = Deposit(st, Meta, m, side, a, f) /\ Log(O("deposit", m, "none", side, a))
DoWithdraw == \E m \in Ms, side \in Sides, o \in Amts :
  /\ CanWithdraw(st, m, side, o) /\ CanRecordOut(st, Meta, m, side, o)
  /\ st' = Withdraw(st, Meta, m, side, o) /\ Log(O("withdraw", m, "none", side, o))
DoSwap1 == \E m \in {"M1", "M2"}, side \in Sides, x \in Amts, f \in {0, 1}, y \in Amts :
  /\ y <= x /\ CanHop(st, m, side, y)
  /\ st' = Swap1(st, Meta, m, side, x, f, y) /\ Log(O("swap", m, "none", side, x))
DoSwap2 == \E m1 \in {"M1", "M2"}, side \in Sides, x \in Amts, f \in {0, 1}, y1 \in Amts, y2 \in Amts :
  LET m2 == IF m1 = "M1" THEN "M2" ELSE "M1" IN
  /\ y1 <= x /\ y2 <= y1 /\ CanHop(st, m1, side, y1) /\ CanHop(st, m2, Other(side), y2)
  /\ st' = Swap2(st, Meta, m1, side, m2, Other(side), x, f, y1, y2) /\ Log(O("swap2", m1, m2, side, x))
DoShift == \E m1 \in {"M1", "M2"}, side \in Sides, o \in Amts :
  LET m2 == IF m1 = "M1" THEN "M2" ELSE "M1" IN
  /\ CanWithdraw(st, m1, side, o) /\ CanRecordOut(st, Meta, m1, side, o)
  /\ st' = Shift(st, Meta, m1, m2, side, o) /\ Log(O("shift", m1, m2, side, o))
DoClaim == \E m \in Ms, side \in Sides :
  /\ st.fee[m][side] > 0
  /\ st' = ClaimFees(st, Meta, m, side) /\ Log(O("claim", m, "none", side, 0))
DoTransferIn == \E m \in Ms, side \in Sides :
  /\ st' = TransferIn(st, Meta, m, side, 1) /\ Log(O("transfer_in", m, "none", side, 1))
DoCollateralIn == \E m \in {"M1"}, side \in Sides :
  /\ st' = CollateralIn(st, Meta, m, side, 1) /\ Log(O("collateral_in", m, "none", side, 1))
DoCollateralOut == \E m \in {"M1"}, side \in Sides :
  /\ st.col[m][side] >= 1
  /\ st' = CollateralOut(st, Meta, m, side, 1) /\ Log(O("collateral_out", m, "none", side, 1))
DoDonate == \E t \in Ts : st' = Donate(st, t, 1) /\ Log(O("donate", "none", "none", t, 1))

Next == DoDeposit \/ DoWithdraw \/ DoSwap1 \/ DoSwap2 \/ DoShift \/ DoClaim \/ DoTransferIn
        \/ DoCollateralIn \/ DoCollateralOut \/ DoDonate

Bound == Len(hist) <= MaxDepth /\ \A t \in Ts : st.vault[t] <= MaxVault

InvPools == MonPools(st, Meta)
InvCollateral == MonCollateral(st, Meta)
InvVault == MonVault(st, Meta)
(* the design keeps collateral and pools disjoint: the balance covers their SUM (stronger than the
   listed property; holds for the design, not used to judge code) *)
InvDisjoint == \A m \in Ms : st.bal[m].long + st.bal[m].short
                  >= Need(st, m, "long") + Need(st, m, "short") + st.col[m].long + st.col[m].short
InvNonNeg == \A m \in Ms, sd \in Sides : st.bal[m][sd] >= 0 /\ st.liq[m][sd] >= 0 /\ st.fee[m][sd] >= 0 /\ st.col[m][sd] >= 0
EmitPath == PrintT("T|" \o ToJson([path |-> hist]))
=============================================================================
