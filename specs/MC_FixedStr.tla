----------------------------- MODULE MC_FixedStr -----------------------------
(* Every name of 0..MaxChars characters over the alphabet { 'a', NUL, a 2-byte UTF-8 character }
   against a field of N bytes.  Each name is printed ("N|" lines) for replay on the real code at the
   model length and, re-based, at the real lengths 32 and 64.
   Invariants: the design `Store` (accept iff readable) satisfies the monitors under both read
   functions; the code as repaired (ToBytes ; FromBytes) satisfies them everywhere, and the pre-repair
   transcription (ToBytesOld ; FromBytesOld) exactly outside the classes exactly_fills_field and
   contains_nul - the defect, located in the model. *)
EXTENDS FixedStrProps, TLC, Json
CONSTANTS N, MaxChars
VARIABLES name, chars
vars == <<name, chars>>

Alphabet == { <<97>>, <<0>>, <<195, 169>> }
Init == name = << >> /\ chars = 0
Next == /\ chars < MaxChars
        /\ \E c \in Alphabet : name' = name \o c
        /\ chars' = chars + 1
PrintName == PrintT("N|" \o ToJson([name |-> name', cls |-> Class(name', N)]))

Ev(tgt, acc, r) == [tgt |-> tgt, n |-> N, name |-> name, accepted |-> acc, read_ok |-> r.ok, back |-> r.s,
                    usable |-> acc, panic |-> FALSE]
DesignEv(full) ==
  LET st == Store(name, N, full) IN Ev("design", st.ok, IF st.ok THEN Read(st.bytes, full) ELSE NoStr)
CodeEv ==
  LET st == ToBytes(name, N) IN Ev("code", st.ok, IF st.ok THEN FromBytes(st.bytes) ELSE NoStr)

DesignHolds ==
  \A full \in BOOLEAN : MonReadBack(DesignEv(full)) /\ MonUsable(DesignEv(full)) /\ MonNoPanic(DesignEv(full))
(* nothing readable is refused by the design, nothing unreadable accepted *)
DesignExact ==
  \A full \in BOOLEAN : Store(name, N, full).ok <=> (Class(name, N) = "fits" \/ (full /\ Class(name, N) = "exactly_fills_field"))
OldCodeEv ==
  LET st == ToBytesOld(name, N) IN Ev("code", st.ok, IF st.ok THEN FromBytesOld(st.bytes) ELSE NoStr)
(* the code as repaired satisfies the monitors on every name and coincides with the design under the
   full-field read function; the pre-repair transcription fails exactly on the two defect classes *)
CodeDefectClasses ==
  /\ Conforms(CodeEv)
  /\ MonReadBack(CodeEv) /\ MonUsable(CodeEv)
  /\ ToBytes(name, N).ok <=> Store(name, N, TRUE).ok
  /\ MonReadBack(OldCodeEv) <=> Class(name, N) \notin {"exactly_fills_field", "contains_nul"}
=============================================================================
