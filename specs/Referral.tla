------------------------------ MODULE Referral ------------------------------
(* Referral relationships of the store program, shaped like the code
   (programs/store/src/instructions/user.rs, states/user.rs).

   A state s is a record over users U = DOMAIN s.referrer and codes C = DOMAIN s.codeOwner:
     prepared[u]   BOOLEAN            the user account of u exists and is initialised (prepare_user)
     referrer[u]   U \cup {"none"}    UserHeader.referral.referrer  (owner address of the referrer)
     userCode[u]   C \cup {"none"}    UserHeader.referral.code      (address of the code account)
     codeOwner[c]  U \cup {"none"}    ReferralCodeV2.owner          ("none": account does not exist)
     codeNext[c]   U \cup {"none"}    ReferralCodeV2.next_owner
   Users and codes are short strings so that recorded traces and the model use the same values.

   Every operation returns [ok, err, st]: ok = FALSE is a rejected instruction (st = the old
   state: a failed instruction is rolled back).  The failure cases are listed in the order the
   program evaluates them (Anchor account constraints in declaration order, then the handler), so
   `err` is the error the code reports; error names are precise-spec detail (drift only). *)
EXTENDS Integers, FiniteSets

None == "none"

Ok(s)        == [ok |-> TRUE,  err |-> "ok", st |-> s]
Rej(s, err)  == [ok |-> FALSE, err |-> err,  st |-> s]

UsersOf(s) == DOMAIN s.referrer
CodesOf(s) == DOMAIN s.codeOwner
Exists(s, c) == s.codeOwner[c] # None

InitState(U, C) ==
  [prepared  |-> [u \in U |-> FALSE],
   referrer  |-> [u \in U |-> None],
   userCode  |-> [u \in U |-> None],
   codeOwner |-> [c \in C |-> None],
   codeNext  |-> [c \in C |-> None]]

(* prepare_user: init_if_needed, idempotent *)
Prepare(s, u) == Ok([s EXCEPT !.prepared[u] = TRUE])

(* initialize_referral_code(code c) signed by u.
   Anchor first loads the non-`init` accounts (a missing user account is "owned by the wrong
   program"), then runs `init` of the code account (System create_account fails with
   AccountAlreadyInUse = Custom(0) when the code exists), then Referral::set_code. *)
CreateCode(s, u, c) ==
  IF ~s.prepared[u] THEN Rej(s, "AccountOwnedByWrongProgram")
  ELSE IF Exists(s, c) THEN Rej(s, "Custom(0)")
  ELSE IF s.userCode[u] # None THEN Rej(s, "ReferralCodeHasBeenSet")
  ELSE Ok([s EXCEPT !.codeOwner[c] = u, !.codeNext[c] = u, !.userCode[u] = c])

(* set_referrer(code c) signed by u, passing the user account of v as `referrer_user`. *)
SetReferrer(s, u, c, v) ==
  IF ~s.prepared[u] THEN Rej(s, "AccountOwnedByWrongProgram")
  ELSE IF ~Exists(s, c) THEN Rej(s, "AccountOwnedByWrongProgram")
  ELSE IF ~s.prepared[v] THEN Rej(s, "AccountOwnedByWrongProgram")
  ELSE IF v # s.codeOwner[c] THEN Rej(s, "OwnerMismatched")
  ELSE IF s.userCode[v] # c THEN Rej(s, "ReferralCodeMismatched")
  ELSE IF v = u THEN Rej(s, "SelfReferral")
  ELSE IF s.referrer[v] = u THEN Rej(s, "MutualReferral")
  ELSE IF s.referrer[u] # None THEN Rej(s, "ReferrerHasBeenSet")
  ELSE Ok([s EXCEPT !.referrer[u] = v])

(* transfer_referral_code signed by u (code c, receiver = user account of v): proposes v. *)
Transfer(s, u, c, v) ==
  IF ~s.prepared[u] THEN Rej(s, "AccountOwnedByWrongProgram")
  ELSE IF ~Exists(s, c) THEN Rej(s, "AccountOwnedByWrongProgram")
  ELSE IF ~s.prepared[v] THEN Rej(s, "AccountOwnedByWrongProgram")
  ELSE IF s.codeOwner[c] # u THEN Rej(s, "OwnerMismatched")
  ELSE IF s.userCode[u] # c THEN Rej(s, "ReferralCodeMismatched")
  ELSE IF v = u THEN Rej(s, "SelfReferral")
  ELSE IF s.userCode[v] # None THEN Rej(s, "PreconditionsAreNotMet")
  ELSE IF s.codeNext[c] = v THEN Rej(s, "PreconditionsAreNotMet")
  ELSE Ok([s EXCEPT !.codeNext[c] = v])

(* cancel_referral_code_transfer signed by u: next_owner := owner (fails when nothing is pending). *)
Cancel(s, u, c) ==
  IF ~s.prepared[u] THEN Rej(s, "AccountOwnedByWrongProgram")
  ELSE IF ~Exists(s, c) THEN Rej(s, "AccountOwnedByWrongProgram")
  ELSE IF s.codeOwner[c] # u THEN Rej(s, "OwnerMismatched")
  ELSE IF s.userCode[u] # c THEN Rej(s, "ReferralCodeMismatched")
  ELSE IF s.codeNext[c] = u THEN Rej(s, "PreconditionsAreNotMet")
  ELSE Ok([s EXCEPT !.codeNext[c] = u])

(* accept_referral_code signed by n (code c; `user` = the user account of the current owner,
   `receiver_user` = the user account of n). *)
Accept(s, n, c) ==
  IF ~Exists(s, c) THEN Rej(s, "AccountOwnedByWrongProgram")
  ELSE IF ~s.prepared[n] THEN Rej(s, "AccountOwnedByWrongProgram")
  ELSE IF s.userCode[s.codeOwner[c]] # c THEN Rej(s, "ReferralCodeMismatched")
  ELSE IF n = s.codeOwner[c] THEN Rej(s, "SelfReferral")
  ELSE IF s.userCode[n] # None THEN Rej(s, "PreconditionsAreNotMet")
  ELSE IF s.codeNext[c] # n THEN Rej(s, "PreconditionsAreNotMet")
  ELSE Ok([s EXCEPT !.codeOwner[c] = n, !.userCode[n] = c, !.userCode[s.codeOwner[c]] = None])

(* one operation, by name; a = [op, u, c, v] *)
Apply(s, a) ==
  CASE a.op = "prepare"  -> Prepare(s, a.u)
    [] a.op = "create"   -> CreateCode(s, a.u, a.c)
    [] a.op = "set"      -> SetReferrer(s, a.u, a.c, a.v)
    [] a.op = "transfer" -> Transfer(s, a.u, a.c, a.v)
    [] a.op = "cancel"   -> Cancel(s, a.u, a.c)
    [] a.op = "accept"   -> Accept(s, a.u, a.c)

(* the operations a client can attempt from any state *)
Actions(U, C) ==
  [op : {"prepare"}, u : U, c : {None}, v : {None}]
    \cup [op : {"create", "cancel", "accept"}, u : U, c : C, v : {None}]
    \cup [op : {"set", "transfer"}, u : U, c : C, v : U]
=============================================================================
