--------------------------- MODULE Wide_FeedOpen ---------------------------
(* Wide tier (Apalache, unbounded integers): is_market_open of the real code with timestamps at and
   around the i64 limits and u32::MAX differences / timeouts must equal the exact-integer meaning. *)
EXTENDS FeedOpenProps, WideData
VARIABLES
  \* @type: Set(Int);
  bad,
  \* @type: Set(Int);
  drift
CInit == MaxI64 = 9223372036854775807 /\ Nanos = 1000000000
Init ==
  /\ bad   = {i \in DOMAIN Events : ~MonAll(Events[i])}
  /\ drift = {i \in DOMAIN Events : ~Conforms(Events[i])}
Next == UNCHANGED <<bad, drift>>
AllClean == bad = {} /\ drift = {}
=============================================================================
