----------------------------- MODULE FeedProps -----------------------------
(* C25: monitors over one update step of a custom price feed.
   A step e: [pre, post (abstract feed states), price, min, max, ts, slot, now, excess, idem (the
   request), res ("ok"/"skip"/"err"), err, same (all bytes of the account struct unchanged),
   panic]. *)
EXTENDS Feed

ValidPrice(f) == f.min <= f.price /\ f.price <= f.max

(* the price timestamp never decreases *)
MonTsMonotone(e) == e.post.ts >= e.pre.ts
(* the stored price satisfies min <= price <= max (given that it did before) *)
MonStoredValid(e) == ValidPrice(e.pre) => ValidPrice(e.post)
(* a rejected update changes nothing *)
MonRejectedUnchanged(e) == e.res = "err" => (e.post = e.pre /\ e.same)
(* a skipped update changes nothing either (Ok(false) = "not updated") *)
MonSkipUnchanged(e) == e.res = "skip" => (e.post = e.pre /\ e.same)
(* idempotent mode, older price: never stored; skipped WITHOUT error whenever the clock itself did
   not run backwards (a backwards clock/slot is rejected before the price is looked at) *)
ClockSane(e) == e.slot >= e.pre.slot /\ e.now >= e.pre.pub
MonIdemOlder(e) ==
  (e.idem /\ e.ts < e.pre.ts) =>
     /\ e.res # "ok" /\ e.post = e.pre
     /\ ClockSane(e) => e.res = "skip"
(* an accepted update stores exactly the submitted price *)
MonStoresRequest(e) ==
  e.res = "ok" => (e.post.ts = e.ts /\ e.post.price = e.price /\ e.post.min = e.min /\ e.post.max = e.max)
MonNoPanic(e) == ~e.panic

Req(e) == [price |-> e.price, min |-> e.min, max |-> e.max, ts |-> e.ts, slot |-> e.slot,
           now |-> e.now, excess |-> e.excess, idem |-> e.idem]
Conforms(e) ==
  LET r == Update(e.pre, Req(e)) IN
  ~e.panic /\ e.res = r.res /\ e.err = r.err /\ e.post = r.st
=============================================================================
