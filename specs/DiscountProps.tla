--------------------------- MODULE DiscountProps ---------------------------
(* C31 monitors.
   query event  q: [factors (accepted rank table), b, rank, referred, ok, v (program result),
                    uok, uv (program result for the same rank, unreferred), sdk_ok, sdk_s, v_s
                    (decimal strings of the SDK / program values), panic]
   set event    s: [max_rank, factors, ok]
   flat event   w (wide tier): [a, b, referred, ok, v, uok, uv, sdk_ok, sdk] with a = factors[rank] *)
EXTENDS Discount

MonRange(q)    == q.ok => InRange(q.v)
MonReferred(q) == (q.referred /\ q.ok /\ q.uok) => q.v >= q.uv
MonFormula(q)  == (q.ok /\ q.rank + 1 <= Len(q.factors)) =>
                    IF q.referred THEN WithinUlp(q.v, q.factors[q.rank + 1], q.b) ELSE q.v = q.factors[q.rank + 1]
MonRankLimit(q) == q.rank + 1 > Len(q.factors) => ~q.ok
MonSdk(q)      == q.sdk_ok = q.ok /\ (q.ok => q.sdk_s = q.v_s)
MonNoPanic(q)  == ~q.panic
ConformsQuery(q) == LET r == D(q.factors, q.b, q.rank, q.referred) IN ~q.panic /\ q.ok = r.ok /\ (q.ok => q.v = r.v)

(* factors above 100 % are never accepted into the table *)
MonSetCap(s) == s.ok => \A i \in DOMAIN s.factors : s.factors[i] <= Unit
ConformsSet(s) == s.ok = SetOk(s.max_rank, s.factors)
=============================================================================
