------------------------------- MODULE Graph -------------------------------
(* C42.  Swap-path search of the SDK (crates/sdk/src/market_graph/mod.rs) at the level the property
   talks about: tokens 1..n, markets as two directed edges with integer costs (cost = -ln(rate), so
   the rate of a path is exp(-sum of costs) and "better rate" = "smaller cost").

   g = [n |-> number of tokens,
        mk |-> << [a, b, cab, cba], ... >>]    market i joins tokens a # b; cab = cost of a -> b,
                                               cba = cost of b -> a; NoEdge = no estimation

   A step is <<market, dir>> (dir 1: a -> b, dir 2: b -> a).  A path is a sequence of steps. *)
EXTENDS Integers, Sequences, FiniteSets

NoEdge == 99
Inf    == 1000000

Range(s) == {s[i] : i \in DOMAIN s}
Steps(g) == {st \in (DOMAIN g.mk) \X {1, 2} :
               (IF st[2] = 1 THEN g.mk[st[1]].cab ELSE g.mk[st[1]].cba) # NoEdge}
From(g, st) == IF st[2] = 1 THEN g.mk[st[1]].a ELSE g.mk[st[1]].b
To(g, st)   == IF st[2] = 1 THEN g.mk[st[1]].b ELSE g.mk[st[1]].a
Cost(g, st) == IF st[2] = 1 THEN g.mk[st[1]].cab ELSE g.mk[st[1]].cba

RECURSIVE PathCost(_, _)
PathCost(g, p) == IF p = <<>> THEN 0 ELSE Cost(g, Head(p)) + PathCost(g, Tail(p))
MarketsOf(p) == {p[i][1] : i \in DOMAIN p}
(* tokens visited by a path that starts at src *)
NodesOf(g, src, p) == {src} \cup {To(g, p[i]) : i \in DOMAIN p}

(* chains: <<path, end token>>; a chain is extended by a step leaving its end token.
   bySimpleMarket: no market twice (what the property demands of a swap path);
   otherwise: no token twice (simple paths, used for cycle detection and as a cross-check) *)
Grow(g, src, P, byMarket) ==
  UNION {{<<Append(c[1], st), To(g, st)>> : st \in {s \in Steps(g) :
             /\ From(g, s) = c[2]
             /\ IF byMarket THEN s[1] \notin MarketsOf(c[1]) ELSE To(g, s) \notin NodesOf(g, src, c[1])}}
         : c \in P}
RECURSIVE Levels(_, _, _, _, _)
Levels(g, src, P, j, byMarket) ==
  IF j = 0 \/ P = {} THEN P ELSE P \cup Levels(g, src, Grow(g, src, P, byMarket), j - 1, byMarket)
Chains(g, src, k, byMarket) == Levels(g, src, {<< <<>>, src >>}, k, byMarket)

(* Paths(src, dst, k): the market-simple chains from src to dst with at most k steps *)
Paths(g, src, dst, k) == {c[1] : c \in {q \in Chains(g, src, k, TRUE) : q[2] = dst}}
SimplePaths(g, src, dst, k) == {c[1] : c \in {q \in Chains(g, src, k, FALSE) : q[2] = dst}}

MinOf(S) == IF S = {} THEN Inf ELSE CHOOSE x \in S : \A y \in S : x <= y
(* brute force *)
Best(g, src, dst, k)       == MinOf({PathCost(g, p) : p \in Paths(g, src, dst, k)})
BestSimple(g, src, dst, k) == MinOf({PathCost(g, p) : p \in SimplePaths(g, src, dst, k)})

(* a directed cycle of negative total cost: a token-simple path u ~> v closed by a step v -> u
   (a market used forth and back is such a cycle of length two) *)
NegCycle(g) ==
  \E u \in 1..g.n : \E c \in Chains(g, u, g.n - 1, FALSE) : \E st \in Steps(g) :
     From(g, st) = c[2] /\ To(g, st) = u /\ PathCost(g, c[1]) + Cost(g, st) < 0

(* does the sequence of markets ms, walked from src, chain up and end at dst?  The direction of every
   step is determined by the token held (a # b for every market). *)
RECURSIVE Walk(_, _, _)
Walk(g, cur, ms) ==      \* <<ok, end token, cost>>
  IF ms = <<>> THEN <<TRUE, cur, 0>>
  ELSE LET m  == g.mk[Head(ms)]
           st == IF cur = m.a THEN <<Head(ms), 1>> ELSE <<Head(ms), 2>> IN
       IF Head(ms) \notin DOMAIN g.mk \/ (cur # m.a /\ cur # m.b) \/ st \notin Steps(g)
       THEN <<FALSE, cur, 0>>
       ELSE LET r == Walk(g, To(g, st), Tail(ms)) IN <<r[1], r[2], Cost(g, st) + r[3]>>

(* the search as it is meant: some cheapest market-simple path within k steps, none if there is none *)
Search(g, src, dst, k) ==
  LET P == Paths(g, src, dst, k) IN
  IF P = {} THEN [found |-> FALSE, path |-> <<>>, cost |-> 0]
  ELSE LET p == CHOOSE q \in P : \A r \in P : PathCost(g, q) <= PathCost(g, r) IN
       [found |-> TRUE, path |-> [i \in DOMAIN p |-> p[i][1]], cost |-> PathCost(g, p)]

(* ------------------------------------------------------------------------------------------------
   The search AS IMPLEMENTED (crates/sdk/src/market_graph/mod.rs), transcribed step by step, so that a
   recorded failure can be told apart: behaviour of this design (a known finding may cover it) or a
   deviation of the code from it (never covered).

   petgraph order: tokens become nodes in order of first appearance (long token, then short token of
   each inserted market); every market adds the edge a -> b and then b -> a; `edges(u)` yields the
   outgoing edges of u newest first. *)
NoDist == Inf
NoPred == <<0, 0>>
RECURSIVE NodeSeqFrom(_, _, _)
NodeSeqFrom(g, i, acc) ==
  IF i > Len(g.mk) THEN acc
  ELSE LET a    == g.mk[i].a
           b    == g.mk[i].b
           acc1 == IF a \in Range(acc) THEN acc ELSE Append(acc, a)
           acc2 == IF b \in Range(acc1) THEN acc1 ELSE Append(acc1, b) IN
       NodeSeqFrom(g, i + 1, acc2)
Nodes(g) == NodeSeqFrom(g, 1, <<>>)
RECURSIVE OutFrom(_, _, _)
OutFrom(g, u, i) ==       \* outgoing edges of u (with or without an estimation), newest first
  IF i = 0 THEN <<>>
  ELSE (IF g.mk[i].b = u THEN << <<i, 2>> >> ELSE IF g.mk[i].a = u THEN << <<i, 1>> >> ELSE <<>>)
       \o OutFrom(g, u, i - 1)
Out(g, u) == OutFrom(g, u, Len(g.mk))

(* one relaxation of bellman_ford's inner loop; st = [dist, pred, upd] *)
Relax(g, k, steps, st, u, e) ==
  LET j == To(g, e)
      w == Cost(g, e) IN
  IF w = NoEdge \/ st.dist[u] = NoDist THEN st
  ELSE IF st.dist[j] = NoDist \/ st.dist[u] + w < st.dist[j]
       THEN [dist |-> [st.dist EXCEPT ![j] = st.dist[u] + w],
             pred |-> IF steps <= k THEN [st.pred EXCEPT ![j] = <<u, e[1]>>] ELSE st.pred,
             upd  |-> TRUE]
       ELSE st
RECURSIVE RelaxEdges(_, _, _, _, _, _, _)
RelaxEdges(g, k, steps, st, u, es, x) ==
  IF x > Len(es) THEN st ELSE RelaxEdges(g, k, steps, Relax(g, k, steps, st, u, es[x]), u, es, x + 1)
RECURSIVE RelaxNodes(_, _, _, _, _, _)
RelaxNodes(g, k, steps, st, ns, x) ==
  IF x > Len(ns) THEN st
  ELSE RelaxNodes(g, k, steps, RelaxEdges(g, k, steps, st, ns[x], Out(g, ns[x]), 1), ns, x + 1)
(* `for steps in 1..node_count`: in-place rounds, stop when nothing changed, snapshot of the distances
   taken after round max_steps *)
RECURSIVE BFRounds(_, _, _, _, _)
BFRounds(g, k, steps, st, snap) ==
  IF steps >= Len(Nodes(g)) THEN [dist |-> st.dist, pred |-> st.pred, snap |-> snap]
  ELSE LET r == RelaxNodes(g, k, steps, [st EXCEPT !.upd = FALSE], Nodes(g), 1) IN
       IF ~r.upd THEN [dist |-> r.dist, pred |-> r.pred, snap |-> snap]
       ELSE BFRounds(g, k, steps + 1, r, IF steps = k THEN <<TRUE, r.dist>> ELSE snap)
Start(g, src) == [dist |-> [t \in 1..g.n |-> IF t = src THEN 0 ELSE NoDist],
                  pred |-> [t \in 1..g.n |-> NoPred], upd |-> FALSE]
CodeBF(g, src, k) == BFRounds(g, k, 1, Start(g, src), <<FALSE, <<>>>>)
(* the final check for a negative weight cycle *)
CodeNeg(g, dist) ==
  \E x \in DOMAIN Nodes(g) : \E y \in DOMAIN Out(g, Nodes(g)[x]) :
     LET u == Nodes(g)[x]
         e == Out(g, u)[y] IN
     /\ Cost(g, e) # NoEdge /\ dist[u] # NoDist
     /\ (dist[To(g, e)] = NoDist \/ dist[u] + Cost(g, e) < dist[To(g, e)])

(* dfs_recursive; d = NoDist stands for a `None` distance; visited is restored on return *)
RECURSIVE CodeDfs(_, _, _, _, _, _, _, _)
RECURSIVE CodeDfsEdges(_, _, _, _, _, _, _, _, _)
CodeDfs(g, k, cur, d, p, steps, visited, st) ==
  IF steps > k \/ d = NoDist THEN st
  ELSE IF st.dist[cur] # NoDist /\ d >= st.dist[cur] THEN st
  ELSE CodeDfsEdges(g, k, cur, d, steps, visited \cup {cur}, Out(g, cur), 1,
                    [dist |-> [st.dist EXCEPT ![cur] = d], pred |-> [st.pred EXCEPT ![cur] = p]])
CodeDfsEdges(g, k, cur, d, steps, visited, es, x, st) ==
  IF x > Len(es) THEN st
  ELSE LET e == es[x]
           j == To(g, e) IN
       IF j \in visited THEN CodeDfsEdges(g, k, cur, d, steps, visited, es, x + 1, st)
       ELSE CodeDfsEdges(g, k, cur, d, steps, visited, es, x + 1,
              CodeDfs(g, k, j, IF Cost(g, e) = NoEdge THEN NoDist ELSE Cost(g, e) + d,
                      <<cur, e[1]>>, steps + 1, visited, st))
CodeDfsAll(g, src, k) ==
  CodeDfs(g, k, src, 0, NoPred, 0, {},
          [dist |-> [t \in 1..g.n |-> NoDist], pred |-> [t \in 1..g.n |-> NoPred]])

(* best_swap_paths(source, skip_bellman_ford) *)
CodeSearch(g, src, k, skip) ==
  IF skip THEN LET r == CodeDfsAll(g, src, k) IN [dist |-> r.dist, pred |-> r.pred, arb |-> "none"]
  ELSE LET bf == CodeBF(g, src, k) IN
       IF CodeNeg(g, bf.dist)
       THEN LET r == CodeDfsAll(g, src, k) IN [dist |-> r.dist, pred |-> r.pred, arb |-> "true"]
       ELSE [dist |-> IF bf.snap[1] THEN bf.snap[2] ELSE bf.dist, pred |-> bf.pred, arb |-> "false"]

(* BestSwapPaths::to(target): walk the predecessors, give up after max_steps *)
RECURSIVE CodeBack(_, _, _, _, _)
CodeBack(c, k, cur, steps, path) ==      \* cur = a predecessor entry; <<ok, path from target backwards>>
  IF cur = NoPred THEN <<TRUE, path>>
  ELSE IF steps + 1 > k THEN <<FALSE, <<>>>>
  ELSE CodeBack(c, k, c.pred[cur[1]], steps + 1, Append(path, cur[2]))
Reverse(s) == [x \in 1..Len(s) |-> s[Len(s) + 1 - x]]
CodeTo(c, k, src, dst) ==
  LET has == c.dist[dst] # NoDist
      cost == IF has THEN c.dist[dst] ELSE 0 IN
  IF src = dst THEN [found |-> has, path |-> <<>>, has_dist |-> has, cost |-> cost]
  ELSE LET b == CodeBack(c, k, c.pred[dst], 0, <<>>) IN
       IF ~b[1] \/ b[2] = <<>> THEN [found |-> FALSE, path |-> <<>>, has_dist |-> has, cost |-> cost]
       ELSE [found |-> has, path |-> Reverse(b[2]), has_dist |-> has, cost |-> cost]
=============================================================================
