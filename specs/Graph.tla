------------------------------- MODULE Graph -------------------------------
(* C42.  Swap-path search of the SDK (crates/sdk/src/market_graph/mod.rs) at the level the property
   talks about: tokens 1..n, markets as two directed edges with integer costs (cost = -ln(rate), so
   the rate of a path is exp(-sum of costs) and "better rate" = "smaller cost").

   g = [n |-> number of tokens,
        mk |-> << [a, b, cab, cba], ... >>]    market i joins tokens a # b; cab = cost of a -> b,
                                               cba = cost of b -> a; NoEdge = no estimation

   A step is <<market, dir>> (dir 1: a -> b, dir 2: b -> a).  A path is a sequence of steps. *)
EXTENDS Integers, Sequences, FiniteSets

NoEdge == 99
Inf    == 1000000

Range(s) == {s[i] : i \in DOMAIN s}
Steps(g) == {st \in (DOMAIN g.mk) \X {1, 2} :
               (IF st[2] = 1 THEN g.mk[st[1]].cab ELSE g.mk[st[1]].cba) # NoEdge}
From(g, st) == IF st[2] = 1 THEN g.mk[st[1]].a ELSE g.mk[st[1]].b
To(g, st)   == IF st[2] = 1 THEN g.mk[st[1]].b ELSE g.mk[st[1]].a
Cost(g, st) == IF st[2] = 1 THEN g.mk[st[1]].cab ELSE g.mk[st[1]].cba

RECURSIVE PathCost(_, _)
PathCost(g, p) == IF p = <<>> THEN 0 ELSE Cost(g, Head(p)) + PathCost(g, Tail(p))
MarketsOf(p) == {p[i][1] : i \in DOMAIN p}
(* tokens visited by a path that starts at src *)
NodesOf(g, src, p) == {src} \cup {To(g, p[i]) : i \in DOMAIN p}

(* chains: <<path, end token>>; a chain is extended by a step leaving its end token.
   bySimpleMarket: no market twice (what the property demands of a swap path);
   otherwise: no token twice (simple paths, used for cycle detection and as a cross-check) *)
Grow(g, src, P, byMarket) ==
  UNION {{<<Append(c[1], st), To(g, st)>> : st \in {s \in Steps(g) :
             /\ From(g, s) = c[2]
             /\ IF byMarket THEN s[1] \notin MarketsOf(c[1]) ELSE To(g, s) \notin NodesOf(g, src, c[1])}}
         : c \in P}
RECURSIVE Levels(_, _, _, _, _)
Levels(g, src, P, j, byMarket) ==
  IF j = 0 \/ P = {} THEN P ELSE P \cup Levels(g, src, Grow(g, src, P, byMarket), j - 1, byMarket)
Chains(g, src, k, byMarket) == Levels(g, src, {<< <<>>, src >>}, k, byMarket)

(* Paths(src, dst, k): the market-simple chains from src to dst with at most k steps *)
Paths(g, src, dst, k) == {c[1] : c \in {q \in Chains(g, src, k, TRUE) : q[2] = dst}}
SimplePaths(g, src, dst, k) == {c[1] : c \in {q \in Chains(g, src, k, FALSE) : q[2] = dst}}

MinOf(S) == IF S = {} THEN Inf ELSE CHOOSE x \in S : \A y \in S : x <= y
(* brute force *)
Best(g, src, dst, k)       == MinOf({PathCost(g, p) : p \in Paths(g, src, dst, k)})
BestSimple(g, src, dst, k) == MinOf({PathCost(g, p) : p \in SimplePaths(g, src, dst, k)})

(* a directed cycle of negative total cost: a token-simple path u ~> v closed by a step v -> u
   (a market used forth and back is such a cycle of length two) *)
NegCycle(g) ==
  \E u \in 1..g.n : \E c \in Chains(g, u, g.n - 1, FALSE) : \E st \in Steps(g) :
     From(g, st) = c[2] /\ To(g, st) = u /\ PathCost(g, c[1]) + Cost(g, st) < 0

(* does the sequence of markets ms, walked from src, chain up and end at dst?  The direction of every
   step is determined by the token held (a # b for every market). *)
RECURSIVE Walk(_, _, _)
Walk(g, cur, ms) ==      \* <<ok, end token, cost>>
  IF ms = <<>> THEN <<TRUE, cur, 0>>
  ELSE LET m  == g.mk[Head(ms)]
           st == IF cur = m.a THEN <<Head(ms), 1>> ELSE <<Head(ms), 2>> IN
       IF Head(ms) \notin DOMAIN g.mk \/ (cur # m.a /\ cur # m.b) \/ st \notin Steps(g)
       THEN <<FALSE, cur, 0>>
       ELSE LET r == Walk(g, To(g, st), Tail(ms)) IN <<r[1], r[2], Cost(g, st) + r[3]>>

(* the search as it is meant: some cheapest market-simple path within k steps, none if there is none *)
Search(g, src, dst, k) ==
  LET P == Paths(g, src, dst, k) IN
  IF P = {} THEN [found |-> FALSE, path |-> <<>>, cost |-> 0]
  ELSE LET p == CHOOSE q \in P : \A r \in P : PathCost(g, q) <= PathCost(g, r) IN
       [found |-> TRUE, path |-> [i \in DOMAIN p |-> p[i][1]], cost |-> PathCost(g, p)]
=============================================================================
