SPECIFICATION Spec
CONSTANTS
  PMax = 80
  DMax = 40
INVARIANTS TypeOK ISum IDelta ICancel IConf IViews
CHECK_DEADLOCK FALSE
