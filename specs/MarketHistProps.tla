--------------------------- MODULE MarketHistProps ---------------------------
(* Monitors of C07, C08, C12, C13 -- the listed properties made exact, nothing stronger -- over the
   state / step / event shapes of MarketHist, and the conformance predicate (precise operators vs
   logged behaviour; a mismatch is drift, never a violation).

   An event e (one operation of the real code, logged by the hist driver):
     [reset, run, step, unit, op, arg, px, ok, panic, err, m, ps, r, f, ncb, cbs, c, b]
   arg = [pos, coll, size, wd, acc, liq, ins, cap, swap, l, s, mt, long_in, amt, dt]
   r   = action report [in, out, out2, out_long, out2_long, cf, hold, user, wd, sw_out, minted,
                        remove, dusd, dtok, fund, cdelta, insolv, wdable, full]
   f   = funding-rate tuple of the real next_funding_factor_per_second [has, dt, L, S, ok, rate, lp, next, stored]
   b   = real total_pending_borrowing_fees now / after a hypothetical tick [l_ok, l, s_ok, s, hl_ok, hl, hs_ok, hs]
   pp  = partial state of a FAILED increase/decrease before it is discarded [has, ok, size, fps, cfps, idx, cidx]
   ncb = number of on_insufficient_funding_fee_payment callbacks fired by this operation        *)
EXTENDS MarketHist

HypoTick == 7      \* the driver's hypothetical clock advance for b.hl / b.hs

IsPosOp(e) == e.op \in {"increase", "decrease"}
Sel(ps, long, cl, F(_)) ==
  SumSeq([k \in 1..Len(ps) |-> IF ps[k].long = long /\ ps[k].cl = cl THEN F(ps[k]) ELSE 0])
FSize(p) == p.size
FTok(p)  == p.tok
FCol(p)  == p.col

-----------------------------------------------------------------------------
(* C07: open interest and collateral totals always match the open positions *)
C07_OIUsd(m, ps) ==
  \A long \in BOOLEAN, cl \in BOOLEAN : m.oi[Ix(long)][Ix(cl)] = Sel(ps, long, cl, FSize)
C07_OITokens(m, ps) ==
  \A long \in BOOLEAN, cl \in BOOLEAN : m.oit[Ix(long)][Ix(cl)] = Sel(ps, long, cl, FTok)
C07_CollateralSum(m, ps) ==
  \A long \in BOOLEAN, cl \in BOOLEAN : m.col[Ix(long)][Ix(cl)] = Sel(ps, long, cl, FCol)
(* a position reported as removed has zero size (USD and tokens) and zero collateral *)
C07_Removed(e) ==
  (e.op = "decrease" /\ e.ok /\ e.r.remove) =>
     LET p == e.ps[e.arg.pos] IN p.size = 0 /\ p.tok = 0 /\ p.col = 0

-----------------------------------------------------------------------------
(* C08: token ledger.  led = [in, out : <<long token, short token>>, cb : an insufficient funding
   payment was reported earlier in this history] is maintained from the action REPORTS. *)
Led0 == [in |-> <<0, 0>>, out |-> <<0, 0>>, cb |-> FALSE]

StepIn(e, t) ==
  IF ~e.ok THEN 0
  ELSE CASE e.op = "deposit"  -> (IF t = 1 THEN e.arg.l ELSE e.arg.s)
         [] e.op = "swap"     -> (IF Ix(e.arg.long_in) = t THEN e.arg.amt ELSE 0)
         [] e.op = "increase" -> (IF Ix(e.ps[e.arg.pos].cl) = t THEN e.arg.coll ELSE 0)
         [] OTHER -> 0

StepOut(e, t) ==
  IF ~e.ok THEN 0
  ELSE CASE e.op = "withdraw" -> e.r.wd[t]
         [] e.op = "swap"     -> (IF Ix(~e.arg.long_in) = t THEN e.r.sw_out ELSE 0)
         [] e.op = "increase" -> e.r.cf[t]
         [] e.op = "decrease" ->
              e.r.cf[t]
              + (IF Ix(e.r.out_long) = t THEN e.r.out + e.r.hold[1] + e.r.user[1] ELSE 0)
              + (IF Ix(e.r.out2_long) = t THEN e.r.out2 + e.r.hold[2] + e.r.user[2] ELSE 0)
         [] OTHER -> 0

NextLedger(led, e) ==
  LET base == IF e.reset THEN Led0 ELSE led IN
  [in  |-> [t \in 1..2 |-> base.in[t] + StepIn(e, t)],
   out |-> [t \in 1..2 |-> base.out[t] + StepOut(e, t)],
   cb  |-> base.cb \/ e.ncb > 0]

(* accounted holdings of pool token t, and the funding residual R defined by the ledger identity *)
Holdings(m, t) == m.liq[t] + m.simp[t] + m.fee[t] + m.col[1][t] + m.col[2][t]
Residual(led, m, t) == led.in[t] - led.out[t] - Holdings(m, t)

(* funding fee collected / claimable funding paid out by this step, per token *)
FundingDue(e, t) ==
  IF IsPosOp(e) /\ e.ok /\ Ix(e.ps[e.arg.pos].cl) = t THEN e.r.fund ELSE 0
FundingClaimed(e, t) == IF IsPosOp(e) /\ e.ok THEN e.r.cf[t] ELSE 0

(* holdings change exactly by in - out, except for funding collected (at most the fee due; exactly the
   fee due unless an insufficient payment was reported) minus funding claimed *)
C08_Conserved(ledPrev, mPrev, led, e) ==
  \A t \in 1..2 :
    LET dR == Residual(led, e.m, t) - Residual(ledPrev, mPrev, t)
        hi == FundingDue(e, t) - FundingClaimed(e, t)
        lo == -FundingClaimed(e, t)
    IN IF e.ncb = 0 THEN dR = hi ELSE lo <= dR /\ dR <= hi
C08_ConservedAtReset(led, e) == \A t \in 1..2 : Residual(led, e.m, t) = 0

(* fees accrued by payers but not settled yet / claimable by receivers but not claimed yet, per token *)
PendingOwed(m, c, ps, t) ==
  SumSeq([k \in 1..Len(ps) |->
     IF ps[k].size > 0 /\ Ix(ps[k].cl) = t /\ PendingFunding(m, c, ps[k]).ok
     THEN PendingFunding(m, c, ps[k]).fee ELSE 0])
PendingClaimable(m, c, ps, t) ==
  SumSeq([k \in 1..Len(ps) |->
     IF ps[k].size > 0 /\ PendingFunding(m, c, ps[k]).ok
     THEN PendingFunding(m, c, ps[k]).claim[t] ELSE 0])

(* literal reading: funding claimed so far never exceeds funding collected so far *)
C08_ResidualLiteral(led, m) == ~led.cb => \A t \in 1..2 : Residual(led, m, t) >= 0
(* accrual reading: what was claimed plus what is still claimable is backed by what was collected
   plus what payers already owe *)
C08_ResidualBacked(led, m, c, ps) ==
  ~led.cb => \A t \in 1..2 :
     Residual(led, m, t) + PendingOwed(m, c, ps, t) - PendingClaimable(m, c, ps, t) >= 0

-----------------------------------------------------------------------------
(* C12: funding rate bounds, payer, monotone indices, non-negative pending fees *)
BothSides(f) == f.L > 0 /\ f.S > 0
(* adaptive mode: min <= |rate| <= max;  non-adaptive: |rate| <= max (the minimum is only applied
   by the adaptive branch -- DESIGN section 11 item 4) *)
C12_RateBounds(f, c) ==
  (f.has /\ f.ok /\ BothSides(f)) =>
     IF c.f_inc > 0 THEN c.f_min <= f.rate /\ f.rate <= c.f_max ELSE f.rate <= c.f_max
(* non-adaptive: the larger side pays *)
C12_LargerSidePays(f, c) ==
  (f.has /\ f.ok /\ BothSides(f) /\ c.f_inc = 0 /\ f.rate > 0) => (f.lp <=> f.L > f.S)
(* the same, read off the effects: whose payer index / receiver index moved *)
Grew(x, y, s) == \E t \in 1..2 : y[s][t] > x[s][t]
C12_LargerSidePaysEffect(mPrev, e) ==
  (e.op = "update_funding" /\ e.ok /\ e.c.f_inc = 0) =>
     LET oiL == SideOI(mPrev, TRUE)
         oiS == SideOI(mPrev, FALSE) IN
     /\ (Grew(mPrev.fps, e.m.fps, 1) \/ Grew(mPrev.cfps, e.m.cfps, 2)) => oiL > oiS
     /\ (Grew(mPrev.fps, e.m.fps, 2) \/ Grew(mPrev.cfps, e.m.cfps, 1)) => oiS > oiL
C12_IndicesMonotone(mPrev, m) ==
  \A s \in 1..2, t \in 1..2 : m.fps[s][t] >= mPrev.fps[s][t] /\ m.cfps[s][t] >= mPrev.cfps[s][t]
(* pending funding fee of every open position is computable and non-negative *)
C12_PendingNonNeg(m, c, ps) ==
  \A k \in 1..Len(ps) : ps[k].size > 0 =>
     /\ PendingFunding(m, c, ps[k]).ok
     /\ PendingFunding(m, c, ps[k]).fee >= 0
     /\ \A t \in 1..2 : PendingFunding(m, c, ps[k]).claim[t] >= 0
C12_PendingNonNegReal(ps) == \A k \in 1..Len(ps) : ps[k].size > 0 => ps[k].pf_ok
(* the model crate's actions mutate in place: also in the PARTIAL state left behind by an increase /
   decrease that returned Err (pp, probed before the driver discards it) the position's snapshots do not
   run ahead of the market indices for its own side and collateral, and the real pending_funding_fees
   computes *)
C12_PendingNonNegPartial(pp) ==
  pp.has => /\ pp.ok /\ pp.fps <= pp.idx /\ \A t \in 1..2 : pp.cfps[t] <= pp.cidx[t]

-----------------------------------------------------------------------------
(* C13: borrowing accounting *)
C13_FactorMonotone(mPrev, m) == \A s \in 1..2 : m.bf[s] >= mPrev.bf[s]
SumBorrowing(ps, long) ==
  SumSeq([k \in 1..Len(ps) |-> IF ps[k].long = long /\ ps[k].size > 0 THEN BorrowingOf(ps[k].size, ps[k].bf) ELSE 0])
CountOpen(ps, long) ==
  SumSeq([k \in 1..Len(ps) |-> IF ps[k].long = long /\ ps[k].size > 0 THEN 1 ELSE 0])
(* total borrowing = sum over positions of size * factor-at-last-settle, up to one unit per position *)
C13_TotalBorrowing(m, ps) ==
  \A long \in BOOLEAN : Abs(m.tb[Ix(long)] - SumBorrowing(ps, long)) <= CountOpen(ps, long)
(* pending borrowing fees at the current factor are non-negative (a later factor only adds) *)
C13_PendingState(m) ==
  \A long \in BOOLEAN : FloorDiv(SideOI(m, long) * m.bf[Ix(long)], Unit) >= m.tb[Ix(long)]
(* ... and the real code computed them, now and for a hypothetical tick *)
C13_PendingReal(b) ==
  /\ b.l_ok /\ b.s_ok /\ b.hl_ok /\ b.hs_ok
  /\ b.l >= 0 /\ b.s >= 0 /\ b.hl >= 0 /\ b.hs >= 0

-----------------------------------------------------------------------------
(* Conformance of the logged behaviour with the precise operators (drift only) *)
SameBook(a, b) ==
  /\ a.oi = b.oi /\ a.oit = b.oit /\ a.col = b.col /\ a.bf = b.bf /\ a.tb = b.tb
  /\ a.fps = b.fps /\ a.cfps = b.cfps /\ a.ffps = b.ffps
PosCore(p) == <<p.long, p.cl, p.size, p.tok, p.col, p.bf, p.fps, p.cfps>>
SamePositions(a, b) == \A k \in 1..Len(a) : PosCore(a[k]) = PosCore(b[k])
OthersSame(a, b, i) == \A k \in 1..Len(a) : k # i => PosCore(a[k]) = PosCore(b[k])

ConformsFunding(pre, e) ==
  LET dt == PassedFunding(pre.m)
      u  == UpdateFunding(pre.m, e.c, e.px, dt)
      r  == NextFundingFactorPerSecond(e.c, pre.m.ffps, dt, SideOI(pre.m, TRUE), SideOI(pre.m, FALSE))
  IN /\ e.ok = u.ok
     /\ e.f.dt = dt /\ e.f.L = SideOI(pre.m, TRUE) /\ e.f.S = SideOI(pre.m, FALSE)
     /\ e.f.ok = r.ok
     /\ r.ok => e.f.rate = r.rate /\ e.f.lp = r.lp /\ e.f.next = r.next
     /\ e.ok => /\ e.m.fps = u.fps /\ e.m.cfps = u.cfps /\ e.m.ffps = u.ffps
                /\ e.m.ck_f = pre.m.now
                /\ e.m.oi = pre.m.oi /\ e.m.bf = pre.m.bf /\ e.m.tb = pre.m.tb /\ e.m.col = pre.m.col
                /\ SamePositions(pre.ps, e.ps)

ConformsProbe(e) ==
  LET r == NextFundingFactorPerSecond(e.c, e.f.stored, e.f.dt, e.f.L, e.f.S) IN
  /\ e.f.ok = r.ok
  /\ r.ok => e.f.rate = r.rate /\ e.f.lp = r.lp /\ e.f.next = r.next

ConformsBorrowing(pre, e) ==
  LET dt == PassedBorrowing(pre.m)
      nl == NextCumulativeBorrowingFactor(pre.m, e.c, e.px, TRUE, dt)
      ns == NextCumulativeBorrowingFactor(pre.m, e.c, e.px, FALSE, dt)
  IN /\ e.ok = (nl.ok /\ ns.ok)
     /\ e.ok => /\ e.m.bf = <<nl.v, ns.v>> /\ e.m.ck_b = pre.m.now
                /\ e.m.tb = pre.m.tb /\ e.m.oi = pre.m.oi /\ e.m.fps = pre.m.fps /\ e.m.cfps = pre.m.cfps
                /\ SamePositions(pre.ps, e.ps)

ConformsIncrease(pre, e) ==
  LET i == e.arg.pos
      p == pre.ps[i]
      q == e.ps[i]
      s == Ix(p.long)
      t == Ix(p.cl)
      oi == ApplyOIDelta(pre.m, e.c, p.long, p.cl, e.r.dusd, e.r.dtok)
      tb == UpdateTotalBorrowing(pre.m.tb[s], p.size, p.bf, p.size + e.r.dusd, pre.m.bf[s])
  IN e.ok =>
     /\ q.size = p.size + e.r.dusd /\ q.tok = p.tok + e.r.dtok /\ q.col = p.col + e.r.cdelta
     /\ q.bf = pre.m.bf[s] /\ q.fps = pre.m.fps[s][t] /\ q.cfps = pre.m.cfps[s]
     /\ oi.ok /\ e.m.oi = oi.oi /\ e.m.oit = oi.oit
     /\ e.m.col = Set22(pre.m.col, s, t, pre.m.col[s][t] + e.r.cdelta)
     /\ tb.ok /\ e.m.tb = [x \in 1..2 |-> IF x = s THEN tb.v ELSE pre.m.tb[x]]
     /\ e.m.bf = pre.m.bf /\ e.m.fps = pre.m.fps /\ e.m.cfps = pre.m.cfps /\ e.m.ffps = pre.m.ffps
     /\ OthersSame(pre.ps, e.ps, i)
     /\ e.r.dusd = e.arg.size
     /\ LET pf == PendingFunding(pre.m, e.c, IF p.size = 0 THEN [p EXCEPT !.fps = pre.m.fps[s][t], !.cfps = pre.m.cfps[s]] ELSE p)
        IN pf.ok /\ e.r.fund = pf.fee /\ e.r.cf = pf.claim

ConformsDecrease(pre, e) ==
  LET i == e.arg.pos
      p == pre.ps[i]
      q == e.ps[i]
      s == Ix(p.long)
      t == Ix(p.cl)
      oi == ApplyOIDelta(pre.m, e.c, p.long, p.cl, -e.r.dusd, -e.r.dtok)
      tb == UpdateTotalBorrowing(pre.m.tb[s], p.size, p.bf, p.size - e.r.dusd, pre.m.bf[s])
      dt == SizeDeltaInTokens(p.long, p.size, p.tok, e.r.dusd)
      pf == PendingFunding(pre.m, e.c, p)
  IN e.ok =>
     /\ dt.ok /\ e.r.dtok = dt.v
     /\ e.r.remove = (p.size - e.r.dusd = 0 \/ p.tok - e.r.dtok = 0)
     /\ IF e.r.remove THEN q.size = 0 /\ q.tok = 0 /\ q.col = 0
        ELSE q.size = p.size - e.r.dusd /\ q.tok = p.tok - e.r.dtok
     /\ q.bf = pre.m.bf[s] /\ q.fps = pre.m.fps[s][t] /\ q.cfps = pre.m.cfps[s]
     /\ oi.ok /\ e.m.oi = oi.oi /\ e.m.oit = oi.oit
     /\ e.m.col = Set22(pre.m.col, s, t, pre.m.col[s][t] - (p.col - q.col))
     /\ tb.ok /\ e.m.tb = [x \in 1..2 |-> IF x = s THEN tb.v ELSE pre.m.tb[x]]
     /\ e.m.bf = pre.m.bf /\ e.m.fps = pre.m.fps /\ e.m.cfps = pre.m.cfps /\ e.m.ffps = pre.m.ffps
     /\ OthersSame(pre.ps, e.ps, i)
     /\ (e.arg.size < p.size /\ ~PromotedToFullClose(p.long, p.size, p.tok, e.arg.size, e.c.min_size)
           /\ e.r.dusd # p.size) => e.r.dusd = e.arg.size
     /\ PromotedToFullClose(p.long, p.size, p.tok, e.arg.size, e.c.min_size) => e.r.dusd = p.size
     /\ pf.ok /\ e.r.fund = pf.fee /\ e.r.cf = pf.claim

(* per-event facts: the real code's pending values against the operators *)
ConformsProbes(e) ==
  /\ \A k \in 1..Len(e.ps) :
       LET p == e.ps[k]
           pf == PendingFunding(e.m, e.c, p)
           pb == PendingBorrowingFeeValue(e.m, p) IN
       /\ p.pf_ok = pf.ok /\ (pf.ok => p.pf = <<pf.fee, pf.claim[1], pf.claim[2]>>)
       /\ p.pb_ok = pb.ok /\ (pb.ok => p.pb = pb.v)
  /\ LET d  == PassedBorrowing(e.m)
         dh == IF e.m.ck_b < 0 THEN 0 ELSE d + HypoTick
         l  == TotalPendingBorrowingFees(e.m, e.c, e.px, TRUE, d)
         s  == TotalPendingBorrowingFees(e.m, e.c, e.px, FALSE, d)
         hl == TotalPendingBorrowingFees(e.m, e.c, e.px, TRUE, dh)
         hs == TotalPendingBorrowingFees(e.m, e.c, e.px, FALSE, dh)
     IN /\ e.b.l_ok = l.ok /\ (l.ok => e.b.l = l.v)
        /\ e.b.s_ok = s.ok /\ (s.ok => e.b.s = s.v)
        /\ e.b.hl_ok = hl.ok /\ (hl.ok => e.b.hl = hl.v)
        /\ e.b.hs_ok = hs.ok /\ (hs.ok => e.b.hs = hs.v)

Conforms(pre, e) ==
  /\ ~e.panic
  /\ e.op = "probe_funding" => ConformsProbe(e)
  /\ e.op # "probe_funding" => ConformsProbes(e)
  /\ (~e.reset /\ ~e.ok) => (SameBook(pre.m, e.m) /\ SamePositions(pre.ps, e.ps) /\ e.m.now = pre.m.now)
  /\ ~e.reset =>
       CASE e.op = "update_funding"   -> ConformsFunding(pre, e)
         [] e.op = "update_borrowing" -> ConformsBorrowing(pre, e)
         [] e.op = "increase"         -> ConformsIncrease(pre, e)
         [] e.op = "decrease"         -> ConformsDecrease(pre, e)
         [] e.op = "tick"             -> SameBook(pre.m, e.m) /\ e.m.now = pre.m.now + e.arg.dt
                                         /\ SamePositions(pre.ps, e.ps)
         [] OTHER -> (* deposit / withdraw / swap / distribute / probe: positions and position books untouched *)
                     SameBook(pre.m, e.m) /\ SamePositions(pre.ps, e.ps)
=============================================================================
