SPECIFICATION Spec
CONSTANTS
  FUnit = 100
POSTCONDITION Done
CHECK_DEADLOCK FALSE
