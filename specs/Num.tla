------------------------------- MODULE Num -------------------------------
(* Fixed-point arithmetic of gmsol-model (crates/model/src/{num,utils,fixed}.rs), defined by its
   mathematical meaning.  Every operator returns a record [ok, v]; ok = FALSE is the code's
   None / Err.  Unit = 10^DECIMALS, MaxU = max of the unsigned type, MaxS = max of its signed type
   (the signed range is -MaxS-1 .. MaxS).  Division is only applied to non-negative dividends and
   positive divisors so that TLC's floor \div and SMT div agree. *)
EXTENDS Integers

CONSTANTS
  \* @type: Int;
  Unit,
  \* @type: Int;
  MaxU,
  \* @type: Int;
  MaxS

Ok(v)  == [ok |-> TRUE, v |-> v]
Fail   == [ok |-> FALSE, v |-> 0]
Abs(x) == IF x < 0 THEN -x ELSE x
Min(a, b) == IF a <= b THEN a ELSE b
Max(a, b) == IF a >= b THEN a ELSE b
Sgn(x) == IF x > 0 THEN 1 ELSE IF x < 0 THEN -1 ELSE 0

InU(x) == 0 <= x /\ x <= MaxU
InS(x) == -MaxS - 1 <= x /\ x <= MaxS
U(x)   == IF InU(x) THEN Ok(x) ELSE Fail          \* checked result of an unsigned computation
S(x)   == IF InS(x) THEN Ok(x) ELSE Fail

FloorDiv(n, d) == n \div d                          \* n >= 0, d > 0
CeilDiv(n, d)  == (n + d - 1) \div d                \* n >= 0, d > 0

(* checked_mul_div / checked_mul_div_ceil : full-precision product *)
MulDivFloor(a, b, d) == IF d = 0 THEN Fail ELSE U(FloorDiv(a * b, d))
MulDivCeil(a, b, d)  == IF d = 0 THEN Fail ELSE U(CeilDiv(a * b, d))

(* checked_mul_div_with_signed_numerator: magnitude floor, must fit the signed type before the
   sign is applied (so rounds toward zero) *)
MulDivSigned(a, n, d) ==
  LET m == MulDivFloor(a, Abs(n), d) IN
  IF ~m.ok \/ m.v > MaxS THEN Fail ELSE Ok(IF n > 0 THEN m.v ELSE -m.v)

(* checked_round_up_div: the intermediate a + d - 1 must not overflow *)
RoundUpDiv(a, d) ==
  IF d = 0 \/ a + d > MaxU THEN Fail ELSE Ok(CeilDiv(a, d))
(* what the documentation promises: ceil(a / d) *)
RoundUpDivMath(a, d) == IF d = 0 THEN Fail ELSE Ok(CeilDiv(a, d))

(* as_divisor_to_round_up_magnitude_div(d, n) = sign(n) * ceil(|n| / d) *)
RoundUpMagDiv(d, n) ==
  IF d = 0 \/ d > MaxS THEN Fail
  ELSE IF n < 0 THEN (IF ~InS(n - d) THEN Fail ELSE Ok(-CeilDiv(-n, d)))
  ELSE (IF ~InS(n + d) THEN Fail ELSE Ok(CeilDiv(n, d)))
RoundUpMagDivMath(d, n) ==
  IF d = 0 THEN Fail ELSE Ok(IF n < 0 THEN -CeilDiv(-n, d) ELSE CeilDiv(n, d))

ToSigned(x)    == IF x > MaxS THEN Fail ELSE Ok(x)
ToOppSigned(x) == IF x > MaxS THEN Fail ELSE Ok(-x)
WithSign(x, neg) == IF neg THEN ToOppSigned(x) ELSE ToSigned(x)

(* bound_magnitude(v, min, max) *)
BoundMagnitude(v, mn, mx) ==
  IF mn > mx THEN Fail
  ELSE IF Abs(v) < mn THEN WithSign(mn, v < 0)
  ELSE IF Abs(v) > mx THEN WithSign(mx, v < 0)
  ELSE Ok(v)

AddSigned(a, s) == U(a + s)                \* checked_add_with_signed
SubSigned(a, s) == U(a - s)                \* checked_sub_with_signed
MulSigned(a, s) ==                         \* checked_mul_with_signed
  IF a * Abs(s) > MaxU \/ a * Abs(s) > MaxS THEN Fail ELSE Ok(a * s)
SignedSub(a, b) == IF Abs(a - b) > MaxS THEN Fail ELSE Ok(a - b)   \* checked_signed_sub
Diff(a, b) == Abs(a - b)

(* utils.rs *)
ApplyFactor(v, f) == MulDivFloor(v, f, Unit)
DivToFactor(v, d, up) ==
  IF d = 0 THEN Ok(0) ELSE IF up THEN MulDivCeil(v, Unit, d) ELSE MulDivFloor(v, Unit, d)
DivToFactorSigned(n, d) == IF d = 0 THEN Ok(0) ELSE MulDivSigned(Unit, n, d)

(* Fixed::checked_pow for whole-unit exponents: acc := floor(acc * v / Unit), e/Unit times.
   Unrolled (no recursion, so that Apalache accepts the module); exponents above 6 units are outside
   the modelled range (the code documents small whole-unit exponents only) and are Fail. *)
\* @type: ({ok: Bool, v: Int}, Int) => {ok: Bool, v: Int};
PowStep(r, v) == IF ~r.ok THEN Fail ELSE MulDivFloor(r.v, v, Unit)
PowFixed(v, e) ==
  LET k  == e \div Unit
      p1 == PowStep(Ok(Unit), v)
      p2 == PowStep(p1, v)
      p3 == PowStep(p2, v)
      p4 == PowStep(p3, v)
      p5 == PowStep(p4, v)
      p6 == PowStep(p5, v)
  IN CASE k = 0 -> Ok(Unit) [] k = 1 -> p1 [] k = 2 -> p2 [] k = 3 -> p3
       [] k = 4 -> p4 [] k = 5 -> p5 [] k = 6 -> p6 [] OTHER -> Fail

ApplyExponentFactor(v, e) ==
  IF v < Unit THEN Ok(0)
  ELSE IF v = Unit THEN Ok(Unit)
  ELSE IF e = 0 THEN Ok(Unit)
  ELSE IF e = Unit THEN Ok(v)
  ELSE PowFixed(v, e)

ApplyFactors(v, f, e) ==
  LET p == ApplyExponentFactor(v, e) IN IF ~p.ok THEN Fail ELSE MulDivFloor(p.v, f, Unit)

UsdToMarketToken(usd, pv, supply, div) ==
  IF div = 0 THEN Fail
  ELSE IF supply = 0 /\ pv = 0 THEN Ok(FloorDiv(usd, div))
  ELSE IF supply = 0 THEN (IF pv + usd > MaxU THEN Fail ELSE Ok(FloorDiv(pv + usd, div)))
  ELSE MulDivFloor(supply, usd, pv)
MarketTokenToUsd(amt, pv, supply) == MulDivFloor(pv, amt, supply)

-----------------------------------------------------------------------------
(* Laws (checked exhaustively by TLC in MC_Num): the operators mean "mathematically rounded in the
   documented direction".  q is the claimed result of x / d. *)
IsFloor(q, n, d) == q * d <= n /\ n < (q + 1) * d
IsCeil(q, n, d)  == (q - 1) * d < n /\ n <= q * d
=============================================================================
