INIT Init
NEXT Next
CONSTANTS
  MaxDecimals = 3
  MaxValue = 255
  MaxPrice = 2047
  PriceDigits = 4
  MaxU64 = 2047
INVARIANTS LFromPrice LUnitBracket LMonitors LMonitorsSharp LWithUnit LToU128 LPyth
CHECK_DEADLOCK FALSE
