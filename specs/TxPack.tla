------------------------------- MODULE TxPack -------------------------------
(* C41.  Transaction packing of crates/solana-utils (transaction_group.rs, instruction_group.rs),
   written like the code.

   Input: a sequence of parallel groups  [m |-> mergeable, ags |-> <<atomic group, ...>>]  where an
   atomic group is  [id, n, payer, m]  (id = position in the flattened input 1..N, n = number of
   instructions, m = mergeable).  TransactionGroup::add has already accepted every group.

   A *pack* is what an AtomicGroup value is during optimisation: the input groups it consists of
   (ids, in order), the instruction count, the payer and the mergeable option.  AtomicGroup::merge
   keeps the payer and the options of the group merged INTO (self) and appends the other's
   instructions.

   The size oracle is data: fit[a][b] = "the pack made of the input groups a..b (payer of a) is within
   max_instructions_per_tx and its estimated size is within max_transaction_size".  The bounded model
   computes it from an abstract additive size, the trace specification reads what the real
   `transaction_size_after_merge` answered. *)
EXTENDS Integers, Sequences

Pack(ag)    == [ids |-> <<ag.id>>, n |-> ag.n, payer |-> ag.payer, m |-> ag.m]
EmptyPack   == [ids |-> <<>>, n |-> 0, payer |-> 0, m |-> TRUE]      \* AtomicGroup::new(&Pubkey::default())
Merge(x, y) == [ids |-> x.ids \o y.ids, n |-> x.n + y.n, payer |-> x.payer, m |-> x.m]

Fits(fit, x, y) == fit[x.ids[1]][y.ids[Len(y.ids)]]

(* TransactionGroupOptions::optimizable *)
Optimizable(x, y, allow, fit) ==
  /\ x.m /\ y.m
  /\ (allow \/ x.payer = y.payer)
  /\ Fits(fit, x, y)

(* TransactionGroupOptions::optimize: windows (i, i+1) left to right, i is merged into i+1; an
   empty group counts as "already merged".  Returns the groups and the `merged` flag. *)
RECURSIVE PassAG(_, _, _, _, _)
PassAG(gs, i, merged, allow, fit) ==
  IF i >= Len(gs) THEN [gs |-> gs, merged |-> merged]
  ELSE IF gs[i].n = 0 THEN PassAG(gs, i + 1, TRUE, allow, fit)
  ELSE IF Optimizable(gs[i], gs[i + 1], allow, fit)
       THEN PassAG([gs EXCEPT ![i] = EmptyPack, ![i + 1] = Merge(gs[i], gs[i + 1])], i + 1, TRUE, allow, fit)
       ELSE PassAG(gs, i + 1, merged, allow, fit)

(* ParallelGroup::optimize: empty groups are filtered only when something was merged *)
OptimizePG(pg, allow, fit) ==
  LET r == PassAG(pg.ags, 1, FALSE, allow, fit) IN
  [m |-> pg.m, ags |-> IF r.merged THEN SelectSeq(r.gs, LAMBDA g : g.n > 0) ELSE r.gs]

(* second loop of TransactionGroup::optimize: adjacent mergeable parallel groups that consist of a
   single atomic group each; std::mem::take leaves ParallelGroup::default() behind *)
RECURSIVE PassPG(_, _, _, _, _)
PassPG(ps, i, merged, allow, fit) ==
  IF i >= Len(ps) THEN [ps |-> ps, merged |-> merged]
  ELSE LET a == ps[i]
           b == ps[i + 1] IN
       IF /\ a.m /\ b.m
          /\ Len(a.ags) = 1 /\ Len(b.ags) = 1
          /\ Optimizable(a.ags[1], b.ags[1], allow, fit)
       THEN PassPG([ps EXCEPT ![i] = [m |-> TRUE, ags |-> <<>>],
                               ![i + 1] = [m |-> a.m, ags |-> <<Merge(a.ags[1], b.ags[1])>>]],
                   i + 1, TRUE, allow, fit)
       ELSE PassPG(ps, i + 1, merged, allow, fit)

PackPG(pg) == [m |-> pg.m, ags |-> [k \in 1..Len(pg.ags) |-> Pack(pg.ags[k])]]

(* TransactionGroup::optimize(allow_payer_change) *)
Optimize(pgs, allow, fit) ==
  LET ps1 == [k \in 1..Len(pgs) |-> OptimizePG(PackPG(pgs[k]), allow, fit)]
      r   == PassPG(ps1, 1, FALSE, allow, fit) IN
  IF r.merged THEN SelectSeq(r.ps, LAMBDA p : Len(p.ags) > 0) ELSE r.ps
=============================================================================
