INIT Init
NEXT Next
CONSTANTS
  MaxAmt = 5
INVARIANTS IAgree IPure IClosed
CHECK_DEADLOCK FALSE
