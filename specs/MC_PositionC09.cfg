INIT Init
NEXT Next
CONSTANTS
  Unit = 10
  MaxU = 2147483647
  MaxS = 2147483647
  MarketIds = {1, 2, 3, 4}
  PriceIds = {1, 2, 3, 4, 5}
  Colls = {0, 2, 6, 30}
INVARIANT Inv
CHECK_DEADLOCK FALSE
