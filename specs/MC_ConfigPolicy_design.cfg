INIT Init
NEXT Next
CONSTANTS
  MaxDepth = 3
VIEW View
CONSTRAINT Bound

PROPERTY StepProps
CHECK_DEADLOCK FALSE
