---------------------------- MODULE MC_FundingBack ----------------------------
(* C08, design level: "claimable funding is backed by funding owed".  For one collateral token and
   two funding periods: the payer index is packed rounding up and unpacked rounding up, the receiver
   index is packed rounding down and unpacked rounding down, so whatever the payer positions owe
   (settled or not) covers whatever the receiver positions can claim -- for every split of the payer /
   receiver open interest into positions, every funding value and price.  This calibrates the
   monitor C08_ResidualBacked (no slack is needed). *)
EXTENDS MarketHistProps, TLC, Json
CONSTANTS Values, Sizes, PricesSet, Adj
VARIABLES v1, v2, s1, s2, r1, r2, price, phase
vars == <<v1, v2, s1, s2, r1, r2, price, phase>>

Init == /\ v1 \in Values /\ v2 = 0 /\ s1 = 0 /\ s2 = 0 /\ r1 = 0 /\ r2 = 0 /\ price = 1 /\ phase = 0
Pick == /\ phase = 0 /\ phase' = 1 /\ UNCHANGED v1
        /\ v2' \in Values /\ s1' \in Sizes /\ s2' \in Sizes /\ r1' \in Sizes /\ r2' \in Sizes
        /\ price' \in PricesSet
Next == Pick

(* both periods see the same open interest; positions settle once at the end (the worst case for the
   payer's rounding) or after each period *)
PayIdx(v) == Pack(Adj, v, s1 + s2, price, TRUE).v
RcvIdx(v) == Pack(Adj, v, r1 + r2, price, FALSE).v
Owed(s, d)  == Unpack(Adj, d, 0, s, TRUE).v
Claim(r, d) == Unpack(Adj, d, 0, r, FALSE).v

(* a token's share of the funding value is zero when no payer position holds that token
   (value_t = value * payerOI[t] / payerOI), hence the antecedent s1 + s2 > 0 *)
InvBackedOnce ==
  (phase = 1 /\ s1 + s2 > 0) =>
    Owed(s1, PayIdx(v1) + PayIdx(v2)) + Owed(s2, PayIdx(v1) + PayIdx(v2))
      >= Claim(r1, RcvIdx(v1) + RcvIdx(v2)) + Claim(r2, RcvIdx(v1) + RcvIdx(v2))
InvBackedEach ==
  (phase = 1 /\ s1 + s2 > 0) =>
    Owed(s1, PayIdx(v1)) + Owed(s1, PayIdx(v2)) + Owed(s2, PayIdx(v1) + PayIdx(v2))
      >= Claim(r1, RcvIdx(v1)) + Claim(r1, RcvIdx(v2)) + Claim(r2, RcvIdx(v1) + RcvIdx(v2))
(* the token amount behind a funding value: payers owe at least value / price, receivers get at most that *)
InvBracket ==
  (phase = 1 /\ s1 + s2 > 0) =>
    /\ (Owed(s1, PayIdx(v1)) + Owed(s2, PayIdx(v1))) * price >= v1
    /\ (r1 + r2 > 0) => (Claim(r1, RcvIdx(v1)) + Claim(r2, RcvIdx(v1))) * price <= v1
(* position-size patterns for funding scenarios replayed on the real code (two payers, two receivers
   of the same collateral token; the glue turns them into open / update_funding / tick / update_funding /
   settle-all scripts in both settlement orders) *)
InvEmit ==
  (phase = 1 /\ v1 = 1 /\ price = 1 /\ s1 > 0 /\ r1 + r2 > 0) =>
     PrintT("T|" \o ToJson([s1 |-> s1, s2 |-> s2, r1 |-> r1, r2 |-> r2, dt |-> 1 + (v2 % 3)]))
=============================================================================
