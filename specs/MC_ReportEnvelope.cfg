INIT Init
NEXT Next
CONSTANTS
  USize = 1024
ACTION_CONSTRAINT PrintCase
INVARIANTS MeaningSound ClassesExact CodeInBounds CodeDeparture MonitorsOnMeaning MonitorSharp
CHECK_DEADLOCK FALSE
