----------------------------- MODULE Trace_Pool -----------------------------
EXTENDS PoolProps, TraceLib
VARIABLE i
Init == i = 0
Next ==
  /\ i < NRec
  /\ i' = i + 1
  /\ LET e == Rec[i'] IN
       /\ Judge(i', << <<"NoPanic", MonNoPanic(e)>>, <<"Sum", MonSum(e)>>,
                       <<"Delta", MonDelta(e)>>, <<"Cancel", MonCancel(e)>> >>)
       /\ Drift(i', Conforms(e), e.op)
Spec == Init /\ [][Next]_i
Done == Emit("DONE", [events |-> TLCGet("stats").diameter - 1])
=============================================================================
