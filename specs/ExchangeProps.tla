--------------------------- MODULE ExchangeProps ---------------------------
(* stage stub: monitors are added in stage 5 *)
EXTENDS Exchange
HP == INSTANCE MarketHistProps
Led0 == HP!Led0
NextLedger(led, e) == HP!NextLedger(led, e)
Monitors(step, pre, s0, e, led, nl) == << <<"none", TRUE>> >>
=============================================================================
