--------------------------- MODULE ExchangeProps ---------------------------
(* ALL market-level monitors (C04 - C14) as predicates on the ONE state of Exchange.tla.
   Nothing is restated: every monitor is the operator of the property's own Props module
   (MarketProps C04-C06, MarketHistProps C07 C08 C12 C13, PositionProps C09-C11, DistributionProps C14),
   applied to the event of that module's shape obtained from an exchange event through the same lenses
   the actions use.

   Exchange event J (one operation on the one state; built from the logs by Trace_Exchange, from the
   specification's own transition by MC_Exchange):
     reset, op, a (arguments, the driver's `arg`), c, px, ok, panic
     s0 / s1   state before / after (after = before when ok = FALSE: the revert)
     sp        the partial state the operation itself left behind (= s1 when ok)
     rep       uniform report (Exchange!NoRep)
   The literal statements of C06 (round trip), C08 (residual, conservation), C10, C11 do not hold on the
   design in the classes recorded in known_findings.json; the *Design variants exclude exactly those
   classes (as MC_Market, MC_FundingBack, MC_PositionC10, MC_PositionC11 do) and are what the bounded model
   is held to.  Recorded histories are judged with the literal monitors and classified by the glue. *)
EXTENDS Exchange

MP == INSTANCE MarketProps
HP == INSTANCE MarketHistProps
PP == INSTANCE PositionProps
DP == INSTANCE DistributionProps

IsLiqOp(J)  == J.op \in {"deposit", "withdraw", "swap"}
IsPosOp(J)  == J.op \in {"increase", "decrease"}
SlotOf(J)   == IF J.a.pos \in 1..Len(J.s0.ps) THEN J.a.pos ELSE 1

-----------------------------------------------------------------------------
(* C04 C05 C06: the event of MarketProps *)
MEv(J, rt) ==
  [reset |-> J.reset, rt |-> rt, op |-> J.op, side |-> J.a.long_in,
   a |-> CASE J.op = "swap" -> J.a.amt [] J.op = "deposit" -> J.a.l [] J.op = "withdraw" -> J.a.mt [] OTHER -> 0,
   b |-> IF J.op = "deposit" THEN J.a.s ELSE 0,
   pr |-> MPr(J.px), c |-> MCfg(J.c), ok |-> J.ok, panic |-> J.panic,
   out |-> CASE J.op = "swap" -> J.rep.swOut [] J.op = "deposit" -> J.rep.minted
             [] J.op = "withdraw" -> J.rep.wd[1] [] OTHER -> 0,
   out2 |-> IF J.op = "withdraw" THEN J.rep.wd[2] ELSE 0,
   impact |-> J.rep.impact, impactAmt |-> J.rep.impactAmt,
   fpl |-> J.rep.fpl, frl |-> J.rep.frl, fps |-> J.rep.fps, frs |-> J.rep.frs,
   pre |-> MView(J.s0, J.c, J.px), post |-> MView(J.sp, J.c, J.px), pvPre |-> 0, pvPost |-> 0]
(* a withdrawal of exactly what the previous event (a deposit at the same prices) minted *)
IsLpRoundTrip(Jd, Jw) ==
  /\ ~Jw.reset /\ Jd.op = "deposit" /\ Jd.ok /\ Jw.op = "withdraw" /\ Jw.ok
  /\ Jw.a.mt = Jd.rep.minted /\ Jw.px = Jd.px /\ Jw.s0 = Jd.s1
(* C04 "a failed swap leaves every pool unchanged": on the whole state, before any revert *)
C04AtomicAll(J) == (J.op = "swap" /\ ~J.ok) => J.sp = J.s0

MarketMonitors(J) ==
  LET e == MEv(J, FALSE) IN
  << <<"C04.In", MP!C04In(e)>>, <<"C04.Out", MP!C04Out(e)>>, <<"C04.Atomic", MP!C04Atomic(e) /\ C04AtomicAll(J)>>,
     <<"C05.Value", MP!C05Value(e)>>, <<"C05.Exact", MP!C05Exact(e)>>, <<"C05.Funded", MP!C05Funded(e)>>,
     <<"C06.DepositShare", MP!C06DepositShare(e)>>, <<"C06.WithdrawShare", MP!C06WithdrawShare(e)>>,
     <<"C06.First", MP!C06First(e)>> >>
LpRoundTripMonitors(Jd, Jw) ==
  LET d == MEv(Jd, FALSE)
      w == MEv(Jw, TRUE) IN
  << <<"C06.RoundTrip", IsLpRoundTrip(Jd, Jw) => MP!C06RoundTrip(d, w)>>,
     <<"C06.RoundTripFunded", IsLpRoundTrip(Jd, Jw) => MP!C06RoundTripFunded(d, w)>> >>

-----------------------------------------------------------------------------
(* C09 C10: the operation event of PositionProps.  A decrease with the liquidation flag and a size
   covering the position is what the program's liquidation order executes ("liquidate"). *)
PEv(J, rt) ==
  LET k == SlotOf(J) IN
  [reset |-> J.reset,
   op |-> IF J.op = "increase" THEN "increase"
          ELSE IF J.a.liq /\ J.a.size >= J.s0.ps[k].size THEN "liquidate" ELSE "decrease",
   tag |-> "", px |-> PPx(J.px),
   a |-> [dcoll |-> J.a.coll, dsize |-> J.a.size, acc |-> IF J.a.acc = 0 THEN -1 ELSE J.a.acc, wd |-> J.a.wd,
          insolvent |-> J.a.ins, cap |-> J.a.cap],
   pre |-> [m |-> PView(J.s0, J.c), p |-> PPos(J.s0.ps[k])], ok |-> J.ok,
   post |-> [m |-> PView(J.s1, J.c), p |-> PPos(J.s1.ps[k])],
   rep |-> J.rep.pos, adl |-> [ex |-> FALSE, f0 |-> 0, f1 |-> 0], rt |-> rt, panic |-> J.panic]
IsPosRoundTrip(J1, J2) ==
  /\ ~J2.reset /\ J1.op = "increase" /\ J2.op = "decrease" /\ J1.a.pos = J2.a.pos /\ J2.s0 = J1.s1
PositionMonitors(J) ==
  LET e == PEv(J, FALSE) IN
  << <<"C09.IncreaseHealthy", PP!MonIncreaseHealthy(e)>>, <<"C09.DecreaseHealthy", PP!MonDecreaseHealthy(e)>>,
     <<"C09.Liquidation", PP!MonLiquidation(e)>> >>
PosRoundTripMonitors(J1, J2) ==
  << <<"C10.RoundTrip", IsPosRoundTrip(J1, J2) => PP!MonRoundTrip(PEv(J1, FALSE), PEv(J2, TRUE))>> >>
PosRoundTripDesign(J1, J2) ==
  (IsPosRoundTrip(J1, J2) /\ PP!CapConvention(PCfg(J1.c))) => PP!MonRoundTrip(PEv(J1, FALSE), PEv(J2, TRUE))

-----------------------------------------------------------------------------
(* C11: pnl of position k of state s at prices px and at an index price k higher; f / q are the results
   of pnl_value for a full close / the partial close d (from the real code, or from P!PnlValue) *)
CEv(s, c, px, slot, up, d, f1, f2, q1, q2) ==
  [reset |-> FALSE, p |-> PPos(s.ps[slot]), m |-> PView(s, c), px1 |-> PPx(px),
   px2 |-> PPx([px EXCEPT !.imin = @ + up, !.imax = @ + up]), d |-> d,
   f1 |-> f1, f2 |-> f2, q1 |-> q1, q2 |-> q2, panic |-> FALSE]
SpecCEv(s, c, px, slot, up, d) ==
  LET p  == PPos(s.ps[slot])
      m  == PView(s, c)
      p2 == PPx([px EXCEPT !.imin = @ + up, !.imax = @ + up])
  IN CEv(s, c, px, slot, up, d, P!PnlValue(p, m, PPx(px), p.size), P!PnlValue(p, m, p2, p.size),
         P!PnlValue(p, m, PPx(px), d), P!PnlValue(p, m, p2, d))
PnlMonitors(ce) ==
  << <<"C11.Monotone", PP!MonMonotone(ce)>>, <<"C11.MonotoneNoCap", PP!CapActive(ce) \/ PP!MonMonotone(ce)>>,
     <<"C11.MonotoneUncapped", PP!MonMonotoneUncapped(ce)>>, <<"C11.Capped", PP!MonCapped(ce)>>,
     <<"C11.Partial", PP!MonPartial(ce)>> >>
PnlDesign(ce) ==
  /\ PP!CapActive(ce) \/ PP!MonMonotone(ce)
  /\ PP!MonMonotoneUncapped(ce) /\ PP!MonCapped(ce) /\ PP!MonPartial(ce)

-----------------------------------------------------------------------------
(* C14: the distribution event of DistributionProps *)
DEv(J) ==
  [reset |-> FALSE, amount |-> J.s0.m.pimp, min |-> J.c.dist_min, rate |-> J.c.dist_factor,
   dt |-> PassedDist(J.s0.m), pok |-> FALSE, pd |-> 0, pnext |-> 0,
   ok |-> J.ok, d |-> J.rep.d, next |-> J.rep.next, dur |-> J.rep.dur, after |-> J.sp.m.pimp, panic |-> J.panic]
DistributionMonitors(J) ==
  LET e == DEv(J) IN
  << <<"C14.NonIncreasing", J.op = "distribute" => DP!MonNonIncreasing(e)>>,
     <<"C14.Floor", J.op = "distribute" => DP!MonFloor(e)>>,
     <<"C14.Amount", J.op = "distribute" => DP!MonAmount(e)>> >>

-----------------------------------------------------------------------------
(* C07 C08 C12 C13: the event of MarketHistProps (`he`: the logged event itself on traces) and its
   monitors, listed as in Trace_MarketHist *)
Led0 == HP!Led0
NextLedger(led, he) == HP!NextLedger(led, he)
HistMonitors(step, preM, he, led, nl) ==
  << <<"C07.OIUsd",          HP!C07_OIUsd(he.m, he.ps)>>,
     <<"C07.OITokens",       HP!C07_OITokens(he.m, he.ps)>>,
     <<"C07.CollateralSum",  HP!C07_CollateralSum(he.m, he.ps)>>,
     <<"C07.Removed",        HP!C07_Removed(he)>>,
     <<"C08.Conserved",      IF step THEN HP!C08_Conserved(led, preM, nl, he) ELSE HP!C08_ConservedAtReset(nl, he)>>,
     <<"C08.ResidualBacked", HP!C08_ResidualBacked(nl, he.m, he.c, he.ps)>>,
     <<"C08.ResidualLiteral", HP!C08_ResidualLiteral(nl, he.m)>>,
     <<"C12.RateBounds",     HP!C12_RateBounds(he.f, he.c)>>,
     <<"C12.LargerSidePays", HP!C12_LargerSidePays(he.f, he.c)>>,
     <<"C12.LargerSidePaysEffect", step => HP!C12_LargerSidePaysEffect(preM, he)>>,
     <<"C12.IndicesMonotone", step => HP!C12_IndicesMonotone(preM, he.m)>>,
     <<"C12.PendingNonNeg",  HP!C12_PendingNonNeg(he.m, he.c, he.ps) /\ HP!C12_PendingNonNegReal(he.ps)>>,
     <<"C12.PendingNonNegPartial", HP!C12_PendingNonNegPartial(he.pp)>>,
     <<"C13.FactorMonotone", step => HP!C13_FactorMonotone(preM, he.m)>>,
     <<"C13.TotalBorrowing", HP!C13_TotalBorrowing(he.m, he.ps)>>,
     <<"C13.PendingFees",    HP!C13_PendingState(he.m) /\ HP!C13_PendingReal(he.b)>> >>

(* the MarketHistProps event of an exchange event, with every probe of the real code replaced by the
   specification's own value (bounded model) *)
SpecHEv(J) ==
  LET k  == SlotOf(J)
      p0 == J.s0.ps[k]
      m1 == J.s1.m
      r  == J.rep
      upd == J.op \in {"update_funding", "update_fees"}
      dtF == H!PassedFunding(J.s0.m)
      oiL == H!SideOI(J.s0.m, TRUE)
      oiS == H!SideOI(J.s0.m, FALSE)
      nf  == H!NextFundingFactorPerSecond(J.c, J.s0.m.ffps, dtF, oiL, oiS)
      tp(long, dt) == H!TotalPendingBorrowingFees(m1, J.c, J.px, long, dt)
      d0  == H!PassedBorrowing(m1)
      dh  == IF m1.ck_b < 0 THEN 0 ELSE d0 + HP!HypoTick
      pq  == J.sp.ps[k]
      pf  == H!PendingFunding(J.sp.m, J.c, pq)
  IN [reset |-> J.reset, op |-> J.op, ok |-> J.ok, arg |-> J.a, ncb |-> r.ncb, m |-> m1, c |-> J.c,
      ps |-> [i \in 1..Len(J.s1.ps) |->
                LET q == J.s1.ps[i] IN
                [long |-> q.long, cl |-> q.cl, size |-> q.size, tok |-> q.tok, col |-> q.col, bf |-> q.bf,
                 fps |-> q.fps, cfps |-> q.cfps, pf_ok |-> H!PendingFunding(m1, J.c, q).ok]],
      r |-> [wd |-> r.wd, sw_out |-> r.swOut, cf |-> <<r.pos.clL, r.pos.clS>>, out |-> r.pos.out, out2 |-> r.pos.sec,
             out_long |-> p0.cl, out2_long |-> p0.long, hold |-> <<0, r.pos.hold>>, user |-> <<r.pos.uo, r.pos.us>>,
             fund |-> r.pos.fund, remove |-> r.pos.remove, dusd |-> r.pos.dsize, dtok |-> r.pos.dtok,
             cdelta |-> r.pos.dcoll, minted |-> r.minted],
      f |-> IF upd /\ oiL > 0 /\ oiS > 0
            THEN [has |-> TRUE, dt |-> dtF, L |-> oiL, S |-> oiS, ok |-> nf.ok, rate |-> nf.rate, lp |-> nf.lp,
                  next |-> nf.next, stored |-> J.s0.m.ffps]
            ELSE [has |-> FALSE, dt |-> 0, L |-> 0, S |-> 0, ok |-> FALSE, rate |-> 0, lp |-> FALSE, next |-> 0, stored |-> 0],
      b |-> [l_ok |-> tp(TRUE, d0).ok, l |-> tp(TRUE, d0).v, s_ok |-> tp(FALSE, d0).ok, s |-> tp(FALSE, d0).v,
             hl_ok |-> tp(TRUE, dh).ok, hl |-> tp(TRUE, dh).v, hs_ok |-> tp(FALSE, dh).ok, hs |-> tp(FALSE, dh).v],
      pp |-> [has |-> IsPosOp(J) /\ ~J.ok /\ pq.size > 0, ok |-> pf.ok, size |-> pq.size, fps |-> pq.fps, cfps |-> pq.cfps,
              idx |-> J.sp.m.fps[H!Ix(pq.long)][H!Ix(pq.cl)], cidx |-> J.sp.m.cfps[H!Ix(pq.long)]]]

(* C08 on the design: the fee-remainder dust of pay_for_fees_excluding_funding (known finding
   C08-fee-remainder-dust) is the one admitted exception; `dust` accumulates it per token *)
DustOf(J, he, led, preM, nl) ==
  LET k  == SlotOf(J)
      p  == J.s1.ps[k]
      tc == H!Ix(p.cl)
      tp == H!Ix(p.long)
      exc(t) == HP!FundingDue(he, t) - HP!FundingClaimed(he, t)
                  - (HP!Residual(nl, he.m, t) - HP!Residual(led, preM, t))
      pc == IF tc = 1 THEN J.px.lmin ELSE J.px.smin
      pq == IF tp = 1 THEN J.px.lmin ELSE J.px.smin
  IN IF J.op = "decrease" /\ J.ok /\ he.ncb = 0 /\ tc # tp /\ p.col = 0
        /\ exc(tc) > 0 /\ exc(tc) <= J.rep.pos.feeCost /\ exc(tp) = 0 /\ exc(tc) * pc < pq
     THEN <<exc(1), exc(2)>> ELSE <<0, 0>>
C08ConservedDesign(J, he, led, preM, nl) ==
  HP!C08_Conserved(led, preM, nl, he) \/ DustOf(J, he, led, preM, nl) # <<0, 0>>
C08BackedDesign(nl, dust, m, c, ps) ==
  ~nl.cb => \A t \in 1..2 :
     HP!Residual(nl, m, t) + dust[t] + HP!PendingOwed(m, c, ps, t) - HP!PendingClaimable(m, c, ps, t) >= 0
=============================================================================
