--------------------------- MODULE Trace_Revertible ---------------------------
(* C21: walks the trace recorded from a real Market account.  Events come depth-first over the
   prefix trie of operation sequences (`depth` = position in the sequence, 0 = freshly initialised
   market), see Trace_Roles.  Stack entry: ghost g, specification state st, stored state seen. *)
EXTENDS RevertibleProps, TraceLib
VARIABLES i, stk
vars == <<i, stk>>
Init == i = 0 /\ stk = <<>>

Entry(e) ==
  IF e.depth = 0
  THEN [st |-> InitState(DOMAIN e.storage, e.storage), g |-> Ghost0(DOMAIN e.storage), g0 |-> Ghost0(DOMAIN e.storage),
        storage0 |-> e.storage, st0 |-> InitState(DOMAIN e.storage, e.storage)]
  ELSE LET prev == stk[e.depth] IN
       [st |-> IF e.ok THEN Step(prev.st, e.op, e.slot, e.field, e.fv) ELSE prev.st,
        g |-> GhostNext(prev.g, e, prev.storage), g0 |-> prev.g, storage0 |-> prev.storage, st0 |-> prev.st]

Conforms(e, n) ==
  /\ ~e.panic /\ e.ok
  /\ e.storage = n.st.storage
  /\ e.rev = n.st.rev
  /\ e.slot_revs = n.st.slotRev
  /\ (e.op \in {"read", "write"} => e.val = ReadVal(n.st, e.slot))
  /\ (e.how = "next_trade_id" => e.fv = NextTradeId(n.st0, e.slot))
  /\ e.events = (IF e.op = "commit" THEN 1 ELSE 0)
  /\ e.tok = (IF e.op = "commit" THEN CommitTok(n.st0) ELSE <<>>)

Next ==
  /\ i < NRec
  /\ i' = i + 1
  /\ LET e == Rec[i']
         n == Entry(e)
     IN \* assign every variable before the reporting conjuncts (see Trace_Roles)
        /\ stk' = SubSeq(stk, 1, e.depth) \o << [st |-> n.st, g |-> n.g, storage |-> e.storage] >>
        /\ Judge(i', << <<"NoPanic", ~e.panic>> >> \o Monitors(n.g0, n.g, e, n.storage0, e.storage))
        /\ Drift(i', Conforms(e, n), e.op)
Spec == Init /\ [][Next]_vars
Done == Emit("DONE", [events |-> TLCGet("stats").diameter - 1])
=============================================================================
