------------------------------ MODULE Exchange ------------------------------
(* The market of gmsol-model (crates/model) as ONE composed, implementation-shaped specification.

   One state, every operation of the crate as a named action on it.  Nothing is re-transcribed here:
   each action is the operator of the module that already transcribes that part of the crate, applied
   through a LENS (a view of the one state in the shape that module works on, and the write-back of
   what the operator changed):

     Deposit, Withdraw, Swap        Market.tla      (M!Deposit, M!Withdraw, M!Swap, M!PoolValue)
     Increase, Decrease             Position.tla    (P!Increase, P!DecreaseWith; results carry the partial state)
     UpdateFunding, UpdateBorrowing MarketHist.tla  (H!UpdateFunding, H!NextCumulativeBorrowingFactor)
     DistributeImpact               Distribution.tla (D!Distribute, D!Pending)
     Tick                           the explicit clock of the deterministic market

   What the composition adds (and what no per-property module could say):
     * time.  Market.tla evaluates pool values "with no time passed"; here the clocks are state, and the
       lens MView presents the cumulative borrowing factors and the position impact pool as
       pool_value reads them: next_cumulative_borrowing_factor(passed seconds) and the pool after the
       pending distribution.  So Deposit / Withdraw after a Tick price the pool exactly as the code does.
     * cross effects.  Fees and pnl of position operations move the liquidity pool that swaps and
       deposits price against; the swap inside a decrease (profit -> collateral token, collateral ->
       pnl token) is M!Swap applied to the state in the middle / at the end of P!Decrease.
     * virtual inventories: for swaps (moved by EVERY liquidity pool delta, also those of position
       operations) and for positions.
     * non-atomicity.  gmsol-model mutates the market in place and validates afterwards: an action that
       returns Err leaves a PARTIAL state behind.  Every action here returns [ok, s, rep]; with
       ok = FALSE, s is that partial state.  The programs run every action on a revertible market;
       Revert is that wrapper and the state machine (Next of MC_Exchange) composes Revert with Apply.

   State  s = [m, vi, ps]                      (exactly what harness/h-model/src/bin/hist.rs logs)
     m   [liq, simp, fee : <<long token, short token>>      liquidity / swap impact / claimable fee pool
          oi, oit, col   : <<<<l,s>>, <<l,s>>>>              open interest (usd / index tokens) and collateral
                                                            sum by [position side][collateral token]
          pimp                                               position impact pool (index tokens)
          bf, tb         : <<long side, short side>>         cumulative borrowing factor, total borrowing
          fps, cfps      : 2x2                               funding / claimable funding amount per size
          supply, ffps                                       market token supply, funding factor per second
          now, ck_f, ck_b, ck_d]                             clock and last funding / borrowing / distribution
                                                            update (-1 = never)
         = the 16 pools of the code by side + supply + stored funding rate + clocks
     vi  [s_on, s : <<l,s>>, p_on, p : <<l,s>>]              virtual inventory for swaps / for positions
     ps  sequence of positions [long, cl, size, tok, col, bf, fps, cfps : <<l,s>>]
   Configuration c: the record `cx` of the driver (every value the market reads).
   Prices px = [imin, imax, lmin, lmax, smin, smax]. *)
EXTENDS Num, Sequences

M == INSTANCE Market
P == INSTANCE Position
H == INSTANCE MarketHist
D == INSTANCE Distribution

-----------------------------------------------------------------------------
(* shapes *)
T2(r)  == <<r.long, r.short>>                            \* Market.tla pool -> tuple
R2(t)  == [long |-> t[1], short |-> t[2]]
Q2(t)  == [L |-> t[1], S |-> t[2]]                       \* tuple -> Position.tla pool
Q4(t)  == [L |-> Q2(t[1]), S |-> Q2(t[2])]
U2(q)  == <<q.L, q.S>>
U4(q)  == <<U2(q.L), U2(q.S)>>
Z2     == <<0, 0>>
Z22    == <<Z2, Z2>>

Empty(viOn) ==
  [m  |-> [liq |-> Z2, simp |-> Z2, fee |-> Z2, oi |-> Z22, oit |-> Z22, col |-> Z22, pimp |-> 0,
           bf |-> Z2, tb |-> Z2, fps |-> Z22, cfps |-> Z22, supply |-> 0, now |-> 0,
           ck_f |-> -1, ck_b |-> -1, ck_d |-> -1, ffps |-> 0],
   vi |-> [s_on |-> viOn, s |-> Z2, p_on |-> viOn, p |-> Z2],
   ps |-> <<>>]
EmptyPos(long, cl) ==
  [long |-> long, cl |-> cl, size |-> 0, tok |-> 0, col |-> 0, bf |-> 0, fps |-> 0, cfps |-> Z2]

(* clocks: just_passed_in_seconds(kind) = now - last (0 on first use) and last := now *)
Passed(m, ck) == IF ck < 0 THEN 0 ELSE m.now - ck
PassedDist(m) == Passed(m, m.ck_d)

-----------------------------------------------------------------------------
(* the uniform report of an action: only the fields of the executed operation are meaningful *)
NoRep == [minted |-> 0, wd |-> Z2, swOut |-> 0, impact |-> 0, impactAmt |-> 0,
          fpl |-> 0, frl |-> 0, fps |-> 0, frs |-> 0, pos |-> P!ZeroRep, d |-> 0, next |-> 0, dur |-> 0,
          sw1 |-> "", sw2 |-> "", ncb |-> 0]
Res(ok, s, rep) == [ok |-> ok, s |-> s, rep |-> rep]

(* what the programs do with every action: run it on a revertible market, commit only on Ok *)
Revert(s0, r) == IF r.ok THEN r.s ELSE s0

-----------------------------------------------------------------------------
(* LENS to Market.tla (liquidity side).  Time-dependent quantities are presented as pool_value reads
   them; if next_cumulative_borrowing_factor is an Err for a side, the lens makes exactly
   total_pending_borrowing_fees of that side undefined (total borrowing beyond any total), so the
   operators that consult pool_value fail and the others (Swap) do not. *)
MCfg(c) ==
  [feePos |-> c.s_pos, feeNeg |-> c.s_neg, feeRecv |-> c.s_recv,
   feeDisc |-> -1,                         \* the driver's markets configure no swap fee discount factor
   impPos |-> c.si_pos, impNeg |-> c.si_neg, impExp |-> c.si_exp \div Unit,
   div |-> c.divisor, maxPool |-> c.max_pool_amount, maxPoolValue |-> c.max_pool_value,
   reserveFactor |-> c.reserve, pnlDeposit |-> c.pnl_deposit, pnlWithdrawal |-> c.pnl_withdrawal,
   borrowRecv |-> c.b_recv, skipSmaller |-> c.b_skip]
MPr(px) == [idx   |-> [min |-> px.imin, max |-> px.imax],
            long  |-> [min |-> px.lmin, max |-> px.lmax],
            short |-> [min |-> px.smin, max |-> px.smax]]

NextBf(s, c, px, long) == H!NextCumulativeBorrowingFactor(s.m, c, px, long, H!PassedBorrowing(s.m))
PendingImpactPool(s, c) == D!Pending(s.m.pimp, c.dist_min, c.dist_factor, PassedDist(s.m))

MView(s, c, px) ==
  LET m  == s.m
      nl == NextBf(s, c, px, TRUE)
      ns == NextBf(s, c, px, FALSE)
      pd == PendingImpactPool(s, c)
      poison == MaxU              \* no total reaches it in the small world
  IN [liq |-> R2(m.liq), imp |-> R2(m.simp), fee |-> R2(m.fee), supply |-> m.supply,
      oi  |-> [long |-> H!SideOI(m, TRUE),  short |-> H!SideOI(m, FALSE)],
      oit |-> [long |-> H!SideOIT(m, TRUE), short |-> H!SideOIT(m, FALSE)],
      pimp |-> pd.next,
      bcum |-> [long |-> IF nl.ok THEN nl.v ELSE m.bf[1], short |-> IF ns.ok THEN ns.v ELSE m.bf[2]],
      tbor |-> [long |-> IF nl.ok /\ pd.ok THEN m.tb[1] ELSE poison, short |-> IF ns.ok THEN m.tb[2] ELSE poison],
      vi |-> [on |-> s.vi.s_on, long |-> s.vi.s[1], short |-> s.vi.s[2]]]
(* write-back: the M1 actions touch liquidity, swap impact, claimable fees, supply and the swap VI *)
MBack(s, mm) ==
  [s EXCEPT !.m.liq = T2(mm.liq), !.m.simp = T2(mm.imp), !.m.fee = T2(mm.fee), !.m.supply = mm.supply,
            !.vi.s = <<mm.vi.long, mm.vi.short>>]

(* LiquidityMarketExt::pool_value on the composed state (kind = "deposit" | "withdrawal") *)
PoolValue(s, c, px, kind, maximize) == M!PoolValue(MView(s, c, px), MCfg(c), MPr(px), kind, maximize)

-----------------------------------------------------------------------------
(* LENS to Position.tla.  The position operators read / write: liquidity, claimable fees, position
   impact pool, open interest (usd, tokens), collateral sum, total borrowing, the positions VI; they
   read the borrowing factor and the funding indices.  `x` carries the rest of the state through the
   operator (Position.tla leaves unknown fields alone), so that the swap inside a decrease can be
   applied to the whole state in the middle of the collateral processor. *)
PCfg(c) ==
  [pf |-> c.pi_pos, nf |-> c.pi_neg, iexp |-> c.pi_exp,
   feePos |-> c.o_pos, feeNeg |-> c.o_neg, feeRecv |-> c.o_recv,
   minSize |-> c.min_size, minCollVal |-> c.min_coll_value, minCollF |-> c.min_coll_factor,
   minCollFLiq |-> c.min_coll_factor,      \* min_collateral_factor_for_liquidation: None = the same
   maxPosImp |-> c.max_pos_impact, maxNegImp |-> c.max_neg_impact, maxImpLiq |-> c.max_liq_impact,
   borRecv |-> c.b_recv, liqF |-> c.l_factor, liqRecv |-> c.l_recv,
   maxPnlTrader |-> c.pnl_trader, maxPnlAdl |-> c.pnl_adl, minPnlAdl |-> c.min_pnl_adl,
   resF |-> c.reserve, oiResF |-> c.oi_reserve, maxOI |-> c.max_oi, mcfOI |-> c.mcf_oi, fadj |-> c.adj]
PPx(px) == [i |-> [min |-> px.imin, max |-> px.imax], l |-> [min |-> px.lmin, max |-> px.lmax],
            s |-> [min |-> px.smin, max |-> px.smax]]
PView(s, c) ==
  LET m == s.m IN
  [c |-> PCfg(c), pool |-> Q2(m.liq), fee |-> Q2(m.fee), ip |-> m.pimp, oi |-> Q4(m.oi), oit |-> Q4(m.oit),
   bf |-> Q2(m.bf), fps |-> Q4(m.fps), cfps |-> Q4(m.cfps), csum |-> Q4(m.col), tb |-> Q2(m.tb),
   vi |-> [on |-> s.vi.p_on, L |-> s.vi.p[1], S |-> s.vi.p[2]],
   x |-> s, sw1 |-> ""]
PPos(p) == [long |-> p.long, clong |-> p.cl, coll |-> p.col, size |-> p.size, tok |-> p.tok, bf |-> p.bf,
            fps |-> p.fps, cfl |-> p.cfps[1], cfs |-> p.cfps[2]]
UPos(q) == [long |-> q.long, cl |-> q.clong, size |-> q.size, tok |-> q.tok, col |-> q.coll, bf |-> q.bf,
            fps |-> q.fps, cfps |-> <<q.cfl, q.cfs>>]

(* BaseMarketMutExt::apply_delta moves the virtual inventory for swaps together with the liquidity
   pool: every liquidity delta of a position operation (fees for the pool, pnl, price impact) reaches
   it too.  The lens applies the NET delta of the operation (checked: a VI that cannot absorb it is an
   Err of the operation, as apply_delta's). *)
ViSwapsAfter(vi, liq0, liq1) ==
  LET a == vi.s[1] + (liq1[1] - liq0[1])
      b == vi.s[2] + (liq1[2] - liq0[2])
  IN IF ~vi.s_on THEN [ok |-> TRUE, vi |-> vi]
     ELSE IF a < 0 \/ b < 0 THEN [ok |-> FALSE, vi |-> vi]
     ELSE [ok |-> TRUE, vi |-> [vi EXCEPT !.s = <<a, b>>]]

(* write-back: pm = the Position.tla market (at any point of the operation), q = position k *)
PBackM(pm) ==
  LET s0  == pm.x
      liq == U2(pm.pool)
      v   == ViSwapsAfter(s0.vi, s0.m.liq, liq)
      s1  == [s0 EXCEPT !.m.liq = liq, !.m.fee = U2(pm.fee), !.m.pimp = pm.ip, !.m.oi = U4(pm.oi),
                        !.m.oit = U4(pm.oit), !.m.col = U4(pm.csum), !.m.tb = U2(pm.tb),
                        !.vi = [v.vi EXCEPT !.p = <<pm.vi.L, pm.vi.S>>]]
  IN [ok |-> v.ok, s |-> s1]
PBack(pm, k, q) == LET b == PBackM(pm) IN [ok |-> b.ok, s |-> [b.s EXCEPT !.ps[k] = UPos(q)]]

-----------------------------------------------------------------------------
(* ACTIONS.  Each returns Res(ok, state after -- the partial state when ok = FALSE --, report). *)

(* LiquidityMarketMutExt::deposit(l, s, prices).execute() *)
Deposit(s, c, px, l, sh) ==
  LET r == M!Deposit(MView(s, c, px), MCfg(c), l, sh, MPr(px))
  IN Res(r.ok, MBack(s, r.m),
         [NoRep EXCEPT !.minted = r.minted, !.impact = r.impact, !.fpl = r.feesL.pool, !.frl = r.feesL.recv,
                       !.fps = r.feesS.pool, !.frs = r.feesS.recv])

(* LiquidityMarketMutExt::withdraw(market_token_amount, prices).execute() *)
Withdraw(s, c, px, mt) ==
  LET r == M!Withdraw(MView(s, c, px), MCfg(c), mt, MPr(px))
  IN Res(r.ok, MBack(s, r.m),
         [NoRep EXCEPT !.wd = <<r.longOut, r.shortOut>>, !.fpl = r.feesL.pool, !.frl = r.feesL.recv,
                       !.fps = r.feesS.pool, !.frs = r.feesS.recv])

(* SwapMarketMutExt::swap(is_token_in_long, amount, prices).execute() *)
Swap(s, c, px, longIn, amt) ==
  LET r == M!Swap(MView(s, c, px), MCfg(c), longIn, amt, MPr(px))
  IN Res(r.ok, MBack(s, r.m),
         [NoRep EXCEPT !.swOut = r.out, !.impact = r.impact, !.impactAmt = r.impactAmt,
                       !.fpl = r.feePool, !.frl = r.feeRecv])

(* the explicit clock of the deterministic market *)
Tick(s, dt) == Res(TRUE, [s EXCEPT !.m.now = @ + dt], NoRep)

(* PositionImpactMarketMutExt::distribute_position_impact().execute(): the clock is written first *)
DistributeImpact(s, c) ==
  LET dt == PassedDist(s.m)
      s1 == [s EXCEPT !.m.ck_d = s.m.now]
      r  == D!Distribute(s.m.pimp, c.dist_min, c.dist_factor, dt)
  IN Res(r.ok, [s1 EXCEPT !.m.pimp = r.after], [NoRep EXCEPT !.d = r.d, !.next = r.next, !.dur = dt])

(* BorrowingFeeMarketMutExt::update_borrowing(prices).execute(): clock, then the long side, then the
   short side -- an Err on the short side leaves the long factor updated *)
UpdateBorrowing(s, c, px) ==
  LET dt == H!PassedBorrowing(s.m)
      s1 == [s EXCEPT !.m.ck_b = s.m.now]
      nl == H!NextCumulativeBorrowingFactor(s.m, c, px, TRUE, dt)
      ns == H!NextCumulativeBorrowingFactor(s.m, c, px, FALSE, dt)
      rep == [NoRep EXCEPT !.dur = dt]
  IN IF ~M!PricesValid(MPr(px)) THEN Res(FALSE, s, NoRep)
     ELSE IF ~nl.ok THEN Res(FALSE, s1, rep)
     ELSE IF ~ns.ok THEN Res(FALSE, [s1 EXCEPT !.m.bf = <<nl.v, s.m.bf[2]>>], rep)
     ELSE Res(TRUE, [s1 EXCEPT !.m.bf = <<nl.v, ns.v>>], rep)

(* PerpMarketMutExt::update_funding(prices).execute(): clock, report, then the indices *)
UpdateFunding(s, c, px) ==
  LET dt == H!PassedFunding(s.m)
      s1 == [s EXCEPT !.m.ck_f = s.m.now]
      u  == H!UpdateFunding(s.m, c, px, dt)
      rep == [NoRep EXCEPT !.dur = dt]
  IN IF ~M!PricesValid(MPr(px)) THEN Res(FALSE, s, NoRep)
     ELSE IF ~u.ok THEN Res(FALSE, s1, rep)
     ELSE Res(TRUE, [s1 EXCEPT !.m.fps = u.fps, !.m.cfps = u.cfps, !.m.ffps = u.ffps], rep)

(* PositionMutExt::increase(prices, collateral, size, acceptable).execute() on position slot k.
   acc = 0: no acceptable price (the driver's convention).  On Err: the partial position / market. *)
Increase(s, c, px, k, coll, size, acc) ==
  LET r == P!Increase(PPos(s.ps[k]), PView(s, c), PPx(px), coll, size, IF acc = 0 THEN -1 ELSE acc)
      b == PBack(r.pm, k, r.pp)
  IN Res(r.ok /\ b.ok, b.s, [NoRep EXCEPT !.pos = r.rep])

(* DecreasePositionSwapType::PnlTokenToCollateralToken: inside the collateral processor, after the
   profit (pnl, positive price impact) was taken out of the pool in pnl tokens, those tokens are swapped
   to the collateral token BY THE SWAP ACTION on the market as it then is.  A swap Err is not an Err of
   the decrease (on_swap_error). *)
SwapProfit(st, ctx, c, px, ty) ==
  IF ty # 1 \/ ctx.same \/ st.sec = 0 THEN st
  ELSE LET b == PBackM(st.m)
           w == Swap(b.s, c, px, ctx.pl, st.sec)
       IN IF ~b.ok THEN [st EXCEPT !.ok = FALSE]
          ELSE IF ~w.ok THEN [st EXCEPT !.m.sw1 = "err"]
          ELSE [st EXCEPT !.m = [PView(w.s, c) EXCEPT !.sw1 = "ok"], !.out = @ + w.rep.swOut, !.sec = 0]

(* PositionMutExt::decrease(prices, size, acceptable, withdrawal, flags).set_swap(ty).execute() on slot k;
   fl = [insolvent, liq, cap]; ty: 0 = NoSwap, 1 = PnlTokenToCollateralToken, 2 = CollateralToPnlToken
   (after the position was validated the output amount is swapped to pnl tokens) *)
Decrease(s, c, px, k, size, acc, wd, fl, ty) ==
  LET p == s.ps[k]
      r == P!DecreaseWith(PPos(p), PView(s, c), PPx(px), size, IF acc = 0 THEN -1 ELSE acc, wd, fl,
                          LAMBDA st, ctx : SwapProfit(st, ctx, c, px, ty))
      b == PBack(r.pm, k, r.pp)
      rep == [NoRep EXCEPT !.pos = r.rep, !.sw1 = r.pm.sw1, !.ncb = r.ncb]
  IN IF r.ok /\ b.ok /\ ty = 2 /\ p.long # p.cl /\ r.rep.out # 0
     THEN LET w == Swap(b.s, c, px, p.cl, r.rep.out)
          IN IF w.ok THEN Res(TRUE, w.s, [rep EXCEPT !.pos.out = 0, !.pos.sec = @ + w.rep.swOut, !.sw2 = "ok"])
             ELSE Res(TRUE, b.s, [rep EXCEPT !.sw2 = "err"])
     ELSE Res(r.ok /\ b.ok, b.s, rep)

-----------------------------------------------------------------------------
(* What the programs run before every action (RevertibleMarket::update_fees_state, also an instruction
   of its own): distribute the position impact pool, update the borrowing state, update the funding
   state -- in this order, each on the result of the previous one; the first Err is the Err of the whole. *)
Then(r, Next(_)) == IF r.ok THEN Next(r.s) ELSE r
UpdateFees(s, c, px) ==
  Then(DistributeImpact(s, c), LAMBDA s1 : Then(UpdateBorrowing(s1, c, px), LAMBDA s2 : UpdateFunding(s2, c, px)))
(* the state the programs execute deposits, withdrawals and orders in (a swap step: borrowing only) *)
FeesUpdated(s)      == s.m.ck_d = s.m.now /\ s.m.ck_b = s.m.now /\ s.m.ck_f = s.m.now
BorrowingUpdated(s) == s.m.ck_b = s.m.now

-----------------------------------------------------------------------------
(* One operation record (the driver's script format: op + arg) applied to a state *)
Apply(s, c, px, op, a) ==
  CASE op = "deposit"          -> Deposit(s, c, px, a.l, a.s)
    [] op = "withdraw"         -> Withdraw(s, c, px, a.mt)
    [] op = "swap"             -> Swap(s, c, px, a.long_in, a.amt)
    [] op = "increase"         -> Increase(s, c, px, a.pos, a.coll, a.size, a.acc)
    [] op = "decrease"         -> Decrease(s, c, px, a.pos, a.size, a.acc, a.wd,
                                           [insolvent |-> a.ins, liq |-> a.liq, cap |-> a.cap], a.swap)
    [] op = "update_funding"   -> UpdateFunding(s, c, px)
    [] op = "update_borrowing" -> UpdateBorrowing(s, c, px)
    [] op = "distribute"       -> DistributeImpact(s, c)
    [] op = "update_fees"      -> UpdateFees(s, c, px)
    [] op = "tick"             -> Tick(s, a.dt)
    [] OTHER                   -> Res(TRUE, s, NoRep)          \* init / probes: no effect

(* the transition the programs expose: all-or-nothing *)
Step(s, c, px, op, a) == Revert(s, Apply(s, c, px, op, a))
=============================================================================
