INIT Init
NEXT Next
CONSTANTS
  MaxI64 = 7
  MaxU32 = 3
  Nanos = 2
INVARIANTS LSaturatingIsExact LMonitors LOpenness LStaleClosed
CHECK_DEADLOCK FALSE
