SPECIFICATION Spec
CONSTANTS
  Unit = 10
  MaxU = 2147483647
  MaxS = 2147483647
  Protocol = TRUE
  CfgIds = {1, 2, 3, 4}
  MaxDepth = 6
  Sample = 1999
  PriceMoves = {8, 13}
  GuardShares = TRUE
  Rich = FALSE
VIEW View
INVARIANTS MonitorsHold Emitted
CHECK_DEADLOCK FALSE
