SPECIFICATION Spec
CONSTANTS
  Unit = 10
  MaxU = 2147483647
  MaxS = 2147483647
  NDep = 3
  NWd = 1
  NSwap = 3
  Amounts = {1, 3, 10, 25}
  Pairs = 2
  WdAmounts = {10, 100}
  CfgIds = {1, 2, 3, 4, 5, 6, 7, 8, 9, 10, 11, 12, 13, 14}
  ScenIds = {1, 2, 3, 4, 5, 6}
  FixIds = {0, 1, 2, 3}
  VaryPrices = TRUE
  EmitOps = {}
INVARIANT MonitorsHold
CHECK_DEADLOCK FALSE
