----------------------------- MODULE MC_SwapPath -----------------------------
(* Bounded model for C44: four markets over three tokens (M1, M2: A/B sharing both vaults; M3: C/B;
   MP: single-token B), ALL swap paths of length 0..MaxLen, every input token, three uses of a path:
   a MarketSwap order whose market is `cur` ("order"), the long side of a deposit into `cur` paid in
   `tin` ("into"), the long / short side of a withdrawal from `cur` swapped to `tin` ("from" / "from2").
   Each case is one initial state; for "order" and "into" the design-level execution (SwapPath.tla,
   hops on the funded Vaults state) is performed and the C44 monitors are checked on the resulting
   event, so that the monitors are calibrated on the design before they judge code.  Every case is
   printed for the driver, which runs it through the real instructions. *)
EXTENDS SwapPathProps, TLC, Json

CONSTANTS MaxLen

Ms == {"M1", "M2", "M3", "MP"}
Ts == {"A", "B", "C"}
Meta == [m \in Ms |-> CASE m = "M1" -> [long |-> "A", short |-> "B"]
                        [] m = "M2" -> [long |-> "A", short |-> "B"]
                        [] m = "M3" -> [long |-> "C", short |-> "B"]
                        [] m = "MP" -> [long |-> "B", short |-> "B"]]
Paths == UNION {[1..n -> Ms] : n \in 0..MaxLen}

(* funded world: 6 of every token in every pool *)
Six == [long |-> 6, short |-> 6]
Funded ==
  [bal |-> [m \in Ms |-> IF m = "MP" THEN [long |-> 12, short |-> 0] ELSE Six],
   liq |-> [m \in Ms |-> Six], imp |-> [m \in Ms |-> Zero2], fee |-> [m \in Ms |-> Zero2], col |-> [m \in Ms |-> Zero2],
   vault |-> [t \in Ts |-> IF t = "A" THEN 12 ELSE IF t = "B" THEN 30 ELSE 6]]

VP == INSTANCE VaultsProps
VARIABLE c    \* the case: [dir, cur, path, tin, x]
Init == c \in [dir : {"order", "into", "from", "from2"}, cur : Ms, path : Paths, tin : Ts, x : {3}]
Next == UNCHANGED c

(* the event the design produces for a case *)
OrderEvent ==
  LET tout == IF EndTok(Meta, c.path, c.tin) = Invalid THEN Meta[c.cur].long ELSE EndTok(Meta, c.path, c.tin)
      valid == ValidCreateOrder(Meta, c.cur, c.path, c.tin, tout)
      exec == valid /\ CurrentAtEndsOnly(c.path, c.cur)
      r == IF exec THEN ExecOrder(Funded, Meta, c.path, c.tin, c.x) ELSE [ok |-> FALSE, st |-> Funded, hops |-> <<>>]
  IN [created |-> valid,
      e |-> [op |-> "execute_order", ok |-> TRUE, astate |-> IF r.ok THEN "completed" ELSE "cancelled", dir |-> "order",
             current |-> c.cur, path |-> c.path, path2 |-> <<>>, tin |-> c.tin, tin2 |-> "none", tout |-> tout, tout2 |-> "none",
             amt |-> c.x, amt2 |-> 0, hops |-> r.hops, pre |-> Funded, post |-> r.st, meta |-> Meta, forged |-> FALSE, err |-> "ok"]]
IntoEvent ==
  LET tout == Meta[c.cur].long
      valid == ValidCreateSides(Meta, c.path, <<>>, c.tin, Meta[c.cur].short, tout, Meta[c.cur].short)
      exec == valid /\ CurrentAtEndsOnly(c.path, c.cur)
      r == IF exec THEN ExecDepositSide(Funded, Meta, c.cur, c.path, c.tin, c.x) ELSE [ok |-> FALSE, st |-> Funded, hops |-> <<>>]
  IN [created |-> valid,
      e |-> [op |-> "execute_deposit", ok |-> TRUE, astate |-> IF r.ok THEN "completed" ELSE "cancelled", dir |-> "into",
             current |-> c.cur, path |-> c.path, path2 |-> <<>>, tin |-> c.tin, tin2 |-> Meta[c.cur].short, tout |-> tout,
             tout2 |-> Meta[c.cur].short, amt |-> c.x, amt2 |-> 0, hops |-> r.hops, pre |-> Funded, post |-> r.st, meta |-> Meta,
             forged |-> FALSE, err |-> "ok"]]
Ev == IF c.dir = "order" THEN OrderEvent ELSE IntoEvent

(* a case that cannot be created has duplicates, a no-op step or an inconsistent walk; one that is
   created but not executable has the current market in the middle *)
InvMonitors ==
  c.dir \notin {"from", "from2"} =>
    LET v == Ev IN
    /\ (Bad(v.e) => ~v.created)
    /\ ((Bad(v.e) \/ WrongEnd(v.e)) => ~v.created)
    /\ MonDeclared(v.e) /\ MonRejectExec(v.e) /\ MonHopBalances(v.e) /\ MonVaultTotals(v.e) /\ MonPaidDeclared(v.e)
    /\ (v.e.astate = "completed" => VP!Solvent(v.e.post, Meta))
(* vacuity guards: both outcomes occur *)
Emit == PrintT("T|" \o ToJson([dir |-> c.dir, cur |-> c.cur, path |-> c.path, tin |-> c.tin,
                               created |-> IF c.dir \in {"from", "from2"} THEN TRUE ELSE Ev.created,
                               executed |-> IF c.dir \in {"from", "from2"} THEN TRUE ELSE Ev.e.astate = "completed"]))
=============================================================================
