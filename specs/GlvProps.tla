------------------------------ MODULE GlvProps ------------------------------
(* C45 monitors.  Events (field op):
   insert    [glong, gshort, mlong, mshort, present, ok]         Glv::insert_market on real structs
   deposit   [i, m, mk, pre, post, ok, minted, glvValue, received]
   withdraw  [i, q, mk, pre, post, ok, amount, glvValue, value]
   roundtrip [i, m, mk, pre, ok, minted, returned, mid]          deposit m, then at once withdraw all minted
   with g-states pre/post/mid = [supply, bal, maxAmount, maxValue] and mk = market views (see Glv.tla). *)
EXTENDS Glv

(* every market of a GLV has the GLV's long and short tokens *)
MonInsert(e) == e.op = "insert" /\ e.ok => e.mlong = e.glong /\ e.mshort = e.gshort

(* after a deposit the market's balance respects its configured maximum amount and value *)
MonLimits(e) ==
  e.op = "deposit" /\ e.ok =>
    LET i == e.i IN
    /\ e.post.maxAmount[i] > 0 => e.post.bal[i] <= e.post.maxAmount[i]
    /\ e.post.maxValue[i] > 0 =>
         LET x == MarketTokenToUsd(e.post.bal[i], e.mk[i].pvDmax, e.mk[i].supply) IN
         e.mk[i].pvDmax >= 0 /\ x.ok /\ x.v <= e.post.maxValue[i]

(* deposits value the vault at its maximised value, withdrawals at its minimised value *)
MonDepositMaximised(e) ==
  e.op = "deposit" /\ e.ok => LET v == GlvValue(e.pre, e.mk, TRUE) IN v.ok /\ e.glvValue = v.v
MonWithdrawMinimised(e) ==
  e.op = "withdraw" /\ e.ok => LET v == GlvValue(e.pre, e.mk, FALSE) IN v.ok /\ e.glvValue = v.v

(* a deposit immediately followed by a withdrawal never returns more market tokens than deposited.
   Applies to a GLV in normal operation: it has supply, or it is empty (the first deposit of a GLV
   goes to an unspendable receiver, so supply never returns to zero while balances remain). *)
Normal(g) == g.supply > 0 \/ \A k \in DOMAIN g.bal : g.bal[k] = 0
MonRoundTrip(e) == e.op = "roundtrip" /\ e.ok /\ Normal(e.pre) => e.returned <= e.m

(* the maximised value is never below the minimised one (needed for the claim to make sense) *)
ViewsOrdered(mk) == \A k \in DOMAIN mk : mk[k].pvDmin <= mk[k].pvDmax

Conforms(e) ==
  CASE e.op = "insert" -> e.ok = InsertOK(e.glong, e.gshort, e.mlong, e.mshort, e.present)
    [] e.op = "deposit" ->
         LET r == Deposit(e.pre, e.mk, e.i, e.m) IN
         e.ok = r.ok /\ e.post = r.g /\ (r.ok => e.minted = r.minted /\ e.received = r.received)
    [] e.op = "withdraw" ->
         LET r == Withdraw(e.pre, e.mk, e.i, e.q) IN
         e.ok = r.ok /\ e.post = r.g /\ (r.ok => e.amount = r.amount /\ e.value = r.value)
    [] e.op = "roundtrip" ->
         LET d == Deposit(e.pre, e.mk, e.i, e.m)
             w == Withdraw(d.g, e.mk, e.i, d.minted) IN
         e.ok = (d.ok /\ w.ok) /\ (e.ok => e.minted = d.minted /\ e.returned = w.amount /\ e.mid = d.g)
    [] OTHER -> FALSE
=============================================================================
