SPECIFICATION Spec
CONSTANTS
  MaxPGs = 4
  MaxAGs = 4
  MaxN = 2
  PrintAGs = 3
  Base = 2
  PerIx = 3
INVARIANTS IAll
CHECK_DEADLOCK FALSE
