SPECIFICATION Spec
CONSTANTS
  MaxPGs = 4
  MaxAGs = 5
  MaxN = 2
  PrintAGs = 4
  Base = 2
  PerIx = 3
INVARIANTS IAll
CHECK_DEADLOCK FALSE
