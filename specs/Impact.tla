------------------------------- MODULE Impact -------------------------------
(* Price impact, transcribed from
     crates/model/src/pool/delta.rs           PoolDelta::try_new / try_from_delta_amounts / price_impact
     crates/model/src/params/price_impact.rs  PriceImpactParams::adjusted_factors
     crates/model/src/market/swap.rs          SwapMarketExt::swap_impact_value
     crates/model/src/position.rs             PositionExt::position_price_impact
     crates/model/src/market/base.rs, perp.rs the state moves used for round trips
   Pool amounts are token amounts (or usd open interest with price 1); values = amount * price are
   fixed-point usd values (Unit = one usd).  Parameters: exp (exponent factor, a multiple of Unit),
   pos / neg (positive / negative impact factor).  Records carry ok = FALSE for the code's Err. *)
EXTENDS Num

(* PriceImpactParams::adjusted_factors: the positive factor is capped by the negative one *)
AdjPos(pos, neg) == IF pos > neg THEN neg ELSE pos

DeltaFail == [ok |-> FALSE, cl |-> 0, cs |-> 0, nl |-> 0, ns |-> 0]
(* PoolDelta::try_new(pool, delta values, prices): current and next usd values per side;
   checked_add_with_signed fails on underflow *)
PoolDeltaValues(lo, sh, dLv, dSv, pL, pS) ==
  LET cl == lo * pL
      cs == sh * pS IN
  IF ~InU(cl) \/ ~InU(cs) \/ ~InU(cl + dLv) \/ ~InU(cs + dSv) THEN DeltaFail
  ELSE [ok |-> TRUE, cl |-> cl, cs |-> cs, nl |-> cl + dLv, ns |-> cs + dSv]
(* PoolDelta::try_from_delta_amounts: delta value = price * delta amount (checked_mul_with_signed) *)
PoolDeltaAmounts(lo, sh, dL, dS, pL, pS) ==
  LET a == MulSigned(pL, dL)
      b == MulSigned(pS, dS) IN
  IF ~a.ok \/ ~b.ok THEN DeltaFail ELSE PoolDeltaValues(lo, sh, a.v, b.v, pL, pS)

InitialDiff(d) == Diff(d.cl, d.cs)
NextDiff(d)    == Diff(d.nl, d.ns)
SameSide(d)    == (d.cl <= d.cs) = (d.nl <= d.ns)
(* BalanceChange: 1 improved, -1 worsened, 0 unchanged *)
ChangeOf(initial, next) == IF next < initial THEN 1 ELSE IF next > initial THEN -1 ELSE 0

ImpactFail == [ok |-> FALSE, v |-> 0, bc |-> 0]
Signed(hasPos, a, b) ==            \* +|a-b| or -|a-b|, magnitude must fit the signed type
  LET m == Diff(a, b) IN IF m > MaxS THEN Fail ELSE Ok(IF hasPos THEN m ELSE -m)

(* price_impact_for_same_side_rebalance *)
SameSideImpact(initial, next, pos, neg, exp) ==
  LET hasPos == next < initial
      f == IF hasPos THEN AdjPos(pos, neg) ELSE neg
      i == ApplyFactors(initial, f, exp)
      n == ApplyFactors(next, f, exp) IN
  IF ~i.ok \/ ~n.ok THEN Fail ELSE Signed(hasPos, i.v, n.v)

(* price_impact_for_cross_over_rebalance *)
CrossOverImpact(initial, next, pos, neg, exp) ==
  LET p == ApplyFactors(initial, AdjPos(pos, neg), exp)
      q == ApplyFactors(next, neg, exp) IN
  IF ~p.ok \/ ~q.ok THEN Fail ELSE Signed(p.v > q.v, p.v, q.v)

(* PoolDelta::price_impact *)
PriceImpact(d, pos, neg, exp) ==
  IF ~d.ok THEN ImpactFail
  ELSE LET initial == InitialDiff(d)
           next == NextDiff(d)
           r == IF SameSide(d) THEN SameSideImpact(initial, next, pos, neg, exp)
                ELSE CrossOverImpact(initial, next, pos, neg, exp) IN
       IF ~r.ok THEN ImpactFail ELSE [ok |-> TRUE, v |-> r.v, bc |-> ChangeOf(initial, next)]

(* SwapMarketExt::swap_impact_value(delta, include_virtual_inventory_impact): the worse of the real
   and the virtual-inventory impact, the latter only consulted when the real one is negative *)
SwapImpact(lo, sh, hasVI, VL, VS, dL, dS, pL, pS, pos, neg, exp, incl) ==
  LET d == PoolDeltaAmounts(lo, sh, dL, dS, pL, pS)
      base == PriceImpact(d, pos, neg, exp) IN
  IF ~base.ok THEN ImpactFail
  ELSE IF base.v >= 0 \/ ~incl \/ ~hasVI THEN base
  ELSE LET vi == PriceImpact(PoolDeltaValues(VL, VS, pL * dL, pS * dS, pL, pS), pos, neg, exp) IN
       IF ~vi.ok THEN ImpactFail ELSE IF vi.v < base.v THEN vi ELSE base

(* Pool::checked_cancel_amounts: (1000, 200) -> (800, 0) *)
Cancel(a, b) == IF a >= b THEN <<a - b, 0>> ELSE <<0, b - a>>

(* PositionExt::position_price_impact(size_delta_usd, include_virtual_inventory_impact) on total
   long / short open interest OL, OS (usd, price one); the virtual inventory is cancelled first and,
   for a decrease, both of its sides are offset by |delta| *)
PositionImpact(OL, OS, isLong, delta, hasVI, VL, VS, pos, neg, exp, incl) ==
  LET dLv == IF isLong THEN delta ELSE 0
      dSv == IF isLong THEN 0 ELSE delta
      base == PriceImpact(PoolDeltaValues(OL, OS, dLv, dSv, 1, 1), pos, neg, exp) IN
  IF ~base.ok THEN ImpactFail
  ELSE IF base.v >= 0 \/ ~incl \/ ~hasVI THEN base
  ELSE LET c == Cancel(VL, VS)
           off == IF delta < 0 THEN -delta ELSE 0
           vi == PriceImpact(PoolDeltaValues(c[1] + off, c[2] + off, dLv, dSv, 1, 1), pos, neg, exp) IN
       IF ~vi.ok THEN ImpactFail ELSE IF vi.v < base.v THEN vi ELSE base

(* State moves used for the round trip.  ok = the move succeeded.
   BaseMarketMutExt::apply_delta (liquidity pool and virtual inventory for swaps move together): *)
MoveSwap(lo, sh, hasVI, VL, VS, dL, dS) ==
  IF lo + dL < 0 \/ sh + dS < 0 \/ (hasVI /\ (VL + dL < 0 \/ VS + dS < 0))
  THEN [ok |-> FALSE, L |-> 0, S |-> 0, VL |-> 0, VS |-> 0]
  ELSE [ok |-> TRUE, L |-> lo + dL, S |-> sh + dS,
        VL |-> IF hasVI THEN VL + dL ELSE 0, VS |-> IF hasVI THEN VS + dS ELSE 0]
(* PerpMarketMutExt::apply_delta_to_open_interest: own side moves by delta; the virtual inventory for
   positions tracks net open interest: long-increase / short-decrease add to its long side, the other
   two to its short side, then it is cancelled *)
MovePosition(OL, OS, isLong, delta, hasVI, VL, VS) ==
  IF (isLong /\ OL + delta < 0) \/ (~isLong /\ OS + delta < 0)
  THEN [ok |-> FALSE, L |-> 0, S |-> 0, VL |-> 0, VS |-> 0]
  ELSE LET toLong == (isLong = (delta >= 0))
           c == IF toLong THEN Cancel(VL + Abs(delta), VS) ELSE Cancel(VL, VS + Abs(delta)) IN
       [ok |-> TRUE, L |-> IF isLong THEN OL + delta ELSE OL, S |-> IF isLong THEN OS ELSE OS + delta,
        VL |-> IF hasVI THEN c[1] ELSE 0, VS |-> IF hasVI THEN c[2] ELSE 0]
=============================================================================
