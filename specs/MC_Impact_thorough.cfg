INIT Init
NEXT Next
CONSTANTS
  Unit = 10
  MaxU = 2147483647
  MaxS = 2147483647
  Tier = "thorough"
INVARIANTS InvMonitors InvNoSurprise
CHECK_DEADLOCK FALSE
