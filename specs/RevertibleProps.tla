--------------------------- MODULE RevertibleProps ---------------------------
(* C21 Uncommitted market operations never leak into stored state.
   The monitors compare what the code shows (stored state after every step, value returned by
   every read) with the history folded into a ghost state:
     g.open   an operation is in progress
     g.w[s]   the whole slot value as last written by the CURRENT operation, or <<>> if it has not
              written s (reset at Begin)
   Event e: [op, slot, field, fv (field value written), val (slot value read / read back), ...];
   storage0 / storage1: stored state (all slots) before / after the step. *)
EXTENDS Revertible

None == <<>>
Ghost0(slots) == [open |-> FALSE, w |-> [s \in slots |-> None], mint |-> 0, burn |-> 0]
View(g, storage, s) == IF g.w[s] # None THEN g.w[s] ELSE storage[s]
GhostNext(g, e, storage0) ==
  CASE e.op = "begin"   -> [open |-> TRUE, w |-> [s \in DOMAIN g.w |-> None], mint |-> 0, burn |-> 0]
    [] e.op = "mint" /\ e.ok -> [g EXCEPT !.mint = g.mint + e.fv]
    [] e.op = "burn" /\ e.ok -> [g EXCEPT !.burn = g.burn + e.fv]
    [] e.op = "write" /\ e.ok -> [g EXCEPT !.w[e.slot] = [View(g, storage0, e.slot) EXCEPT ![e.field] = e.fv]]
    [] e.op \in {"commit", "abandon"} -> [g EXCEPT !.open = FALSE]
    [] OTHER -> g

(* the stored market state changes only on commit *)
MonStable(e, storage0, storage1) == e.op # "commit" => storage1 = storage0

(* ... and then reflects exactly the writes that operation made (slot by slot: its last write,
   else the old stored value) *)
MonCommit(g0, e, storage0, storage1) ==
  e.op = "commit" => \A s \in DOMAIN storage1 : storage1[s] = View(g0, storage0, s)

(* every read (and the read-back after a write) returns the operation's own last write, else the
   stored value - never something an abandoned operation left behind *)
MonRead(g1, e, storage1) ==
  (e.op \in {"read", "write"} /\ e.ok) => e.val = View(g1, storage1, e.slot)

(* RevertibleLiquidityMarket: minting and burning market tokens is deferred to commit, i.e. the
   token supply changes only at commit and then by exactly what the operation asked for; e.tok is
   the list of token-program CPIs observed during the step (+amount minted, -amount burned) *)
MonSupply(g0, e) ==
  IF e.op = "commit" THEN e.tok = Tok(g0.mint, g0.burn) ELSE e.tok = <<>>

Monitors(g0, g1, e, storage0, storage1) ==
  << <<"Stable", MonStable(e, storage0, storage1)>>, <<"Commit", MonCommit(g0, e, storage0, storage1)>>,
     <<"Read", MonRead(g1, e, storage1)>>, <<"Supply", MonSupply(g0, e)>> >>
AllHold(mons) == \A k \in DOMAIN mons : mons[k][2]

=============================================================================
