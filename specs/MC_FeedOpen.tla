----------------------------- MODULE MC_FeedOpen -----------------------------
(* Bounded exhaustive check on a scaled integer world (i64 -> MinI64..MaxI64 = -16..15,
   u32 -> 0..MaxU32 = 0..3, Nanos = 2) that the code's saturating arithmetic computes exactly the
   unbounded-integer meaning `Open`, for every combination including both type limits, and that the
   monitors accept exactly that.  Two sub-domains (the policy part and the time part are
   independent factors of the formula):
     A: every (now, ts, diff, timeout, secs, tracking, openf) x three representative policies;
     B: every (status byte 0..7, policy set 0..63, openf, tracking) x a few time tuples. *)
EXTENDS FeedOpenProps, TLC
CONSTANT MaxU32
VARIABLES st, flags, openf, tracking, secs, diff, ts, now, timeout
vars == <<st, flags, openf, tracking, secs, diff, ts, now, timeout>>

ASSUME MaxU32 <= MaxI64

I64 == MinI64..MaxI64
U32 == 0..MaxU32
InitA ==
  /\ \E pr \in {<<0, 0>>, <<3, 0>>, <<6, 32>>} : st = pr[1] /\ flags = pr[2]
  /\ openf \in BOOLEAN /\ tracking \in BOOLEAN /\ secs \in BOOLEAN
  /\ diff \in U32 /\ timeout \in U32 /\ ts \in I64 /\ now \in I64
InitB ==
  /\ st \in 0..7 /\ flags \in 0..63
  /\ openf \in BOOLEAN /\ tracking \in BOOLEAN /\ secs \in BOOLEAN
  /\ diff \in {0, MaxU32} /\ timeout \in {0, 1}
  /\ ts \in {MinI64, 0, MaxI64} /\ now \in {MinI64, 0, 1, MaxI64}
Init == InitA \/ InitB
Next == UNCHANGED vars

Math == Open(st, flags, openf, tracking, secs, diff, ts, now, timeout)
Code == CodeOpen(st, flags, openf, tracking, secs, diff, ts, now, timeout)
Ev(o) == [op |-> "is_open", st |-> st, flags |-> flags, hi |-> 0, openf |-> openf, tracking |-> tracking,
          secs |-> secs, diff |-> diff, ts |-> ts, now |-> now, timeout |-> timeout, open |-> o,
          res |-> "", panic |-> FALSE]

LSaturatingIsExact == Code = Math
LMonitors == MonAll(Ev(Code)) /\ Conforms(Ev(Code)) /\ ~MonOpenIff(Ev(~Code))
LOpenness ==
  /\ Openness(st, flags) \in {"open", "closed", "skip"}
  /\ (Openness(st, flags) = "skip") <=> st \notin 1..6
  /\ st = 3 => (Closed(st, flags) <=> Bit(flags, 2))                \* RegularHours open unless halted
  /\ st \in {1, 2} => (Closed(st, flags) <=> ~Bit(flags, st - 1))   \* others closed unless allowed
  /\ st \in {4, 5, 6} => (Closed(st, flags) <=> ~Bit(flags, st - 1))
  /\ MonOpenness([Ev(FALSE) EXCEPT !.op = "openness", !.res = Openness(st, flags)])
(* staleness is a hard floor: a stale tracked price is closed whatever the policy *)
LStaleClosed == (tracking /\ now - ts > timeout) => ~Math
=============================================================================
