---------------------------- MODULE Trace_Vaults ----------------------------
(* Trace validation for C22.  Every event is ONE real instruction executed by the in-process runtime
   in world R2: [op, step, side, amt, ok, err, reset, meta, touched, pre, post]; pre / post are the
   Vaults state read back from the market accounts and the vault token accounts before / after the
   instruction.  The property monitors judge `post` of every successful instruction. *)
EXTENDS VaultsProps, TraceLib
VARIABLE i
Init == i = 0
Next ==
  /\ i < NRec
  /\ i' = i + 1
  /\ LET e == Rec[i'] IN
       /\ Judge(i', << <<"Pools",      e.ok => MonPools(e.post, e.meta)>>,
                       <<"Collateral", e.ok => MonCollateral(e.post, e.meta)>>,
                       <<"Vault",      e.ok => MonVault(e.post, e.meta)>> >>)
       /\ Drift(i', Conforms(e, e.meta), e.op)
       /\ Drift(i', e.reset \/ i' = 1 \/ Rec[i' - 1].post = e.pre, "chain")
Spec == Init /\ [][Next]_i
Done == Emit("DONE", [events |-> TLCGet("stats").diameter - 1])
=============================================================================
