---------------------------- MODULE PriceDecimal ----------------------------
(* Price decimal conversion of gmsol-utils (crates/utils/src/price/decimal.rs, price/mod.rs),
   defined by its mathematical meaning.

   A provider price is the integer p with d decimals (p / 10^d USD per whole token); the token has
   td decimals and the configured precision is prec.  The unit price (USD per smallest token unit,
   20 decimals) is  exact = p * 10^(MaxDecimals - d - td)  (a rational when d + td > MaxDecimals).
   The compact decimal stores  value * 10^dm  with  dm = MaxDecimals - td - prec,  so
        value = floor(exact / 10^dm) = floor(p * 10^(prec - d)).
   All floors are written as division by a power of ten (never "multiply up, then compare"), so
   that the same text can be evaluated by TLC (32-bit integers) whenever the quantities themselves
   fit, and by Apalache (unbounded integers) at full width.

   Records: a decimal result is [ok, value, dm]; ok = FALSE is the code's Err / None. *)
EXTENDS Integers

CONSTANTS
  \* @type: Int;
  MaxDecimals,    \* Decimal::MAX_DECIMALS = 20
  \* @type: Int;
  MaxValue,       \* u32::MAX (value field)
  \* @type: Int;
  MaxPrice,       \* max of the price type (u128::MAX); p <= MaxPrice
  \* @type: Int;
  PriceDigits     \* MaxPrice < 10^PriceDigits  (39 for u128)

Pow10(n) == 10^n                                   \* n >= 0

DOk(v, m) == [ok |-> TRUE, value |-> v, dm |-> m]
DFail     == [ok |-> FALSE, value |-> 0, dm |-> 0]

Legal(d, td, prec) ==
  /\ 0 <= d /\ 0 <= td /\ 0 <= prec
  /\ d <= MaxDecimals /\ td <= MaxDecimals /\ prec <= MaxDecimals
  /\ td + prec <= MaxDecimals

DecMul(td, prec) == MaxDecimals - td - prec

(* floor(p / 10^k) for 0 <= p <= MaxPrice: zero as soon as 10^k exceeds every price *)
DivPow10(p, k) == IF k >= PriceDigits THEN 0 ELSE p \div Pow10(k)

(* p * 10^k <= bound, decided by division (bound <= MaxPrice) *)
MulFits(p, k, bound) == IF k >= PriceDigits THEN p = 0 ELSE p <= bound \div Pow10(k)
MulPow10(p, k) == IF p = 0 THEN 0 ELSE p * Pow10(k)           \* only used when it fits

(* floor(p * 10^(prec - d)), defined when it is at most `bound` *)
ScaledFits(p, d, prec, bound) ==
  IF prec >= d THEN MulFits(p, prec - d, bound) ELSE DivPow10(p, d - prec) <= bound
Scaled(p, d, prec) ==
  IF prec >= d THEN MulPow10(p, prec - d) ELSE DivPow10(p, d - prec)

(* Decimal::try_from_price *)
TryFromPrice(p, d, td, prec) ==
  IF ~Legal(d, td, prec) THEN DFail
  ELSE IF ~ScaledFits(p, d, prec, MaxValue) THEN DFail
  ELSE DOk(Scaled(p, d, prec), DecMul(td, prec))

(* Decimal::to_unit_price *)
ToUnitPrice(value, dm) == MulPow10(value, dm)                \* value * 10^dm

(* Decimal::with_unit_price(price, round_up): keeps dm *)
WithUnitPrice(dm, price, roundUp) ==
  LET q == DivPow10(price, dm)
      v == IF roundUp /\ (dm < PriceDigits => q * Pow10(dm) # price) /\ price # 0 THEN q + 1 ELSE q
  IN IF v <= MaxValue THEN DOk(v, dm) ELSE DFail

(* price/mod.rs convert_to_u128_storage(num, decimals) for a wider (U192) number: drop the least
   number k of decimal digits such that num <= MaxPrice * 10^k (the code's table of MaxDecimals
   bounds; k = MaxDecimals when even the last bound is exceeded); None when k > decimals.
   Result [ok, value, dm] with dm = the remaining decimals. *)
DropDigits(num) ==
  CHOOSE k \in 0..MaxDecimals :
    /\ (k < MaxDecimals => num <= MaxPrice * Pow10(k))
    /\ \A j \in 0..(k - 1) : num > MaxPrice * Pow10(j)
ToU128Storage(num, decimals) ==
  LET k == DropDigits(num) IN
  IF k > decimals THEN DFail ELSE DOk(num \div Pow10(k), decimals - k)

(* the same as a relation on a claimed result (no CHOOSE, no variable ranges: usable by Apalache);
   the bounds are monotone in k, so "least" only needs the neighbour k - 1 *)
ToU128Rel(num, decimals, ok, value, left) ==
  IF ok
  THEN LET k == decimals - left IN
       /\ 0 <= k /\ k <= MaxDecimals /\ left >= 0
       /\ (k < MaxDecimals => num <= MaxPrice * Pow10(k))
       /\ (k > 0 => num > MaxPrice * Pow10(k - 1))
       /\ value = num \div Pow10(k)
  ELSE decimals < MaxDecimals /\ num > MaxPrice * Pow10(decimals)
=============================================================================
