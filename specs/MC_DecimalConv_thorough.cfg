INIT Init
NEXT Next
CONSTANTS
  MaxRepr = 1023
  MaxScale = 3
  MaxU = 16383
  MaxI = 8191
  AmtMax = 63
  AmtScale = 1
  PowMax = 3
  MaxD = 8
  Full = TRUE
INVARIANTS LFixed LAmount LFrom
CHECK_DEADLOCK FALSE
