---------------------------- MODULE MC_MarketView ----------------------------
(* Bounded exhaustive model for C40: every combination of the market flags and config flags, pure and
   impure pools with small totals, closed-market liquidation factor zero / non-zero; every config field
   carries its own distinct value so that reading the wrong field shows.  Invariants: the two
   projections agree on every image; the pure-pool split is a partition of the total and deltas keep it. *)
EXTENDS MarketViewProps, TLC
CONSTANTS MaxAmt
VARIABLES mflags, cflags, pure, amt, closedMin
vars == <<mflags, cflags, pure, amt, closedMin>>

Fields == <<"max_pool_amount_for_long_token", "max_pool_amount_for_short_token",
  "max_pool_value_for_deposit_for_long_token", "max_pool_value_for_deposit_for_short_token",
  "max_open_interest_for_long", "max_open_interest_for_short",
  "min_collateral_factor_for_open_interest_multiplier_for_long", "min_collateral_factor_for_open_interest_multiplier_for_short",
  "max_pnl_factor_for_long_deposit", "max_pnl_factor_for_short_deposit", "max_pnl_factor_for_long_withdrawal",
  "max_pnl_factor_for_short_withdrawal", "max_pnl_factor_for_long_trader", "max_pnl_factor_for_short_trader",
  "max_pnl_factor_for_long_adl", "max_pnl_factor_for_short_adl", "min_pnl_factor_after_long_adl", "min_pnl_factor_after_short_adl",
  "borrowing_fee_factor_for_long", "borrowing_fee_factor_for_short", "borrowing_fee_exponent_for_long", "borrowing_fee_exponent_for_short",
  "borrowing_fee_optimal_usage_factor_for_long", "borrowing_fee_optimal_usage_factor_for_short",
  "borrowing_fee_base_factor_for_long", "borrowing_fee_base_factor_for_short",
  "borrowing_fee_above_optimal_usage_factor_for_long", "borrowing_fee_above_optimal_usage_factor_for_short",
  "market_closed_borrowing_fee_base_factor", "market_closed_borrowing_fee_above_optimal_usage_factor",
  "min_collateral_factor_for_liquidation", "market_closed_min_collateral_factor_for_liquidation">>
Kinds == {"primary", "swap_impact", "claimable_fee", "position_impact", "borrowing_factor", "total_borrowing",
  "open_interest_for_long", "open_interest_for_short", "open_interest_in_tokens_for_long", "open_interest_in_tokens_for_short",
  "collateral_sum_for_long", "collateral_sum_for_short", "funding_amount_per_size_for_long", "funding_amount_per_size_for_short",
  "claimable_funding_amount_per_size_for_long", "claimable_funding_amount_per_size_for_short"}

FieldVal == [i \in DOMAIN Fields |-> 100 + i]
Cfg == [f \in {Fields[i] : i \in DOMAIN Fields} |->
          IF f = "market_closed_min_collateral_factor_for_liquidation" THEN closedMin
          ELSE FieldVal[CHOOSE i \in DOMAIN Fields : Fields[i] = f]]
Img == [mflags |-> mflags, cflags |-> cflags, cfg |-> Cfg,
        pools |-> [k \in Kinds |-> [pure |-> pure, l |-> amt, s |-> IF pure THEN 0 ELSE amt + 1]]]

Init == /\ mflags \in SUBSET (0..5) /\ cflags \in SUBSET (0..3) /\ pure \in BOOLEAN
        /\ amt \in 0..MaxAmt /\ closedMin \in {0, 7}
Next == UNCHANGED vars

IAgree == MonAgree([prog |-> ProgView(Img), sdk |-> SdkView(Img)])
IPure ==
  LET p == [pure |-> TRUE, l |-> amt, s |-> 0] IN
  /\ PoolLong(p) + PoolShort(p) = amt
  /\ PoolLong(p) - PoolShort(p) \in {0, 1}
  /\ \A d \in 0..2 : PoolLong(ApplyShort(p, d)) + PoolShort(ApplyShort(p, d)) = amt + d
  /\ \A d \in 0..2 : PoolLong(ApplyLong(p, d)) + PoolShort(ApplyLong(p, d)) = amt + d
(* the closed-market parameters are used exactly when the market is closed AND they are enabled *)
IClosed ==
  LET v == ProgView(Img) IN
  (5 \in mflags /\ 2 \in cflags) <=> v.borrowing_base[TRUE] = FieldVal[29]
=============================================================================
