------------------------- MODULE Trace_Distribution -------------------------
EXTENDS DistributionProps, TraceLib
VARIABLE i
Init == i = 0
Next ==
  /\ i < NRec
  /\ i' = i + 1
  /\ LET e == Rec[i'] IN
       /\ Judge(i', Monitors(e))
       /\ Drift(i', Conforms(e) /\ (~e.reset => i' > 1 /\ Continues(Rec[i'-1], e)), e.op)
Spec == Init /\ [][Next]_i
Done == Emit("DONE", [events |-> TLCGet("stats").diameter - 1])
=============================================================================
