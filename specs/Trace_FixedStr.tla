--------------------------- MODULE Trace_FixedStr ---------------------------
EXTENDS FixedStrProps, TraceLib
VARIABLE i
Init == i = 0
Next ==
  /\ i < NRec
  /\ i' = i + 1
  /\ LET e == Rec[i'] IN
       /\ Judge(i', << <<"NoPanic", MonNoPanic(e)>>, <<"ReadBack", MonReadBack(e)>>,
                       <<"Usable", MonUsable(e)>> >>)
       /\ Drift(i', Conforms(e), e.tgt)
Spec == Init /\ [][Next]_i
Done == Emit("DONE", [events |-> TLCGet("stats").diameter - 1])
=============================================================================
