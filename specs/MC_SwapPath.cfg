INIT Init
NEXT Next
CONSTANTS
  MaxLen = 3
INVARIANTS InvMonitors Emit
CHECK_DEADLOCK FALSE
