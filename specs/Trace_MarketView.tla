--------------------------- MODULE Trace_MarketView ---------------------------
EXTENDS MarketViewProps, TraceLib
VARIABLE i
Init == i = 0
Next ==
  /\ i < NRec
  /\ i' = i + 1
  /\ LET e == Rec[i'] IN Judge(i', << <<"Agree", MonAgree(e)>> >>)
Spec == Init /\ [][Next]_i
Done == Emit("DONE", [events |-> TLCGet("stats").diameter - 1])
=============================================================================
