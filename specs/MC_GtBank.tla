----------------------------- MODULE MC_GtBank -----------------------------
(* Bounded exhaustive design check for C37: NTok tokens with every balance in 0..BMax, NCl claimants
   with every GT amount in 0..GMax (remaining confirmed GT = their sum), claims in every order.
   Checked on every step: the trace monitors (on the event the step would log); on every state:
   total paid + bank = original, every finished claimant got at least the floor share of the
   original balances; when all have claimed the bank is empty.  A second action family checks the
   factor rule over all percent values around 100%. *)
EXTENDS GtBankProps, TLC, FiniteSets
CONSTANTS NTok, BMax, NCl, GMax
VARIABLES init, s, gts, done, got, fac, ev
vars == <<init, s, gts, done, got, fac, ev>>
View == <<init, s, gts, done, got, fac>>

Toks == 1..NTok
Cls  == 1..NCl
RECURSIVE SumTo(_, _)
SumTo(f, n) == IF n = 0 THEN 0 ELSE SumTo(f, n - 1) + f[n]
NoEv == [op |-> "none"]
Facs == {[q |-> q, r |-> r] : q \in {0, 1, 50, 99, 100, 101, 250}, r \in {"0", "1", "999999999999999999"}}
F0 == [q |-> 0, r |-> "0"]

Init ==
  /\ gts \in [Cls -> 0..GMax]
  /\ \E b \in [Toks -> 0..BMax] : init = [bal |-> b, rem |-> SumTo(gts, NCl)]
  /\ s = init /\ done = {} /\ got = [c \in Cls |-> [t \in Toks |-> 0]]
  /\ fac = [gt |-> F0, bb |-> F0] /\ ev = NoEv

ClaimStep ==
  \E c \in Cls \ done :
    LET r == Claim(s, gts[c]) IN
    /\ ev' = [op |-> "claim", gt |-> gts[c], ok |-> r.ok, pre |-> s, post |-> [bal |-> r.bal, rem |-> r.rem],
              paid |-> r.paid, init |-> init, errclass |-> IF r.ok THEN "" ELSE "other",
              alldone |-> done \cup {c} = Cls]
    /\ s' = [bal |-> r.bal, rem |-> r.rem]
    /\ done' = done \cup {c}
    /\ got' = [got EXCEPT ![c] = r.paid]
    /\ UNCHANGED <<init, gts, fac>>
(* a claim for more GT than remains (somebody else's exchange) must fail and change nothing *)
BadClaim ==
  /\ done = {} /\ s.rem < GMax * NCl
  /\ LET r == Claim(s, s.rem + 1) IN
       /\ ev' = [op |-> "claim", gt |-> s.rem + 1, ok |-> r.ok, pre |-> s, post |-> [bal |-> r.bal, rem |-> r.rem],
                 paid |-> r.paid, init |-> init, errclass |-> "other", alldone |-> FALSE]
  /\ UNCHANGED <<init, s, gts, done, got, fac>>
FactorStep ==
  /\ done = {} /\ init.rem = 0 /\ \A t \in Toks : init.bal[t] = 0      \* one bank is enough for this family
  /\ \E which \in {"set_gt_factor", "set_buyback_factor"}, new \in Facs :
       LET cur == IF which = "set_gt_factor" THEN fac.gt ELSE fac.bb
           r == SetFactor(cur, new)
           nf == IF which = "set_gt_factor" THEN [gt |-> r.f, bb |-> fac.bb] ELSE [gt |-> fac.gt, bb |-> r.f] IN
       /\ ev' = [op |-> which, new |-> new, ok |-> r.ok, pre |-> fac, post |-> nf]
       /\ fac' = nf
  /\ UNCHANGED <<init, s, gts, done, got>>
Next == ClaimStep \/ BadClaim \/ FactorStep
Spec == Init /\ [][Next]_vars

EvMon(e) == e.op # "none" =>
  /\ MonPaidFormula(e) /\ MonNoOverpay(e) /\ MonRemaining(e) /\ MonFloorShare(e) /\ MonLastDrains(e)
  /\ MonFailedClaim(e) /\ MonFactors(e) /\ MonClaimSucceeds(e) /\ MonDrainedAtEnd(e)
StepMon == [][EvMon(ev')]_vars          \* every transition, not only those into new states
BadFails == ev.op = "claim" /\ ev.gt > ev.pre.rem => ~ev.ok
(* history laws *)
Conservation == \A t \in Toks : s.bal[t] >= 0 /\ s.bal[t] + SumTo([c \in Cls |-> got[c][t]], NCl) = init.bal[t]
FloorShare   == \A c \in done : gts[c] > 0 => \A t \in Toks : got[c][t] >= (init.bal[t] * gts[c]) \div init.rem
Drained      == done = Cls /\ init.rem > 0 => \A t \in Toks : s.bal[t] = 0
FactorsOk    == LeqOne(fac.gt) /\ LeqOne(fac.bb)
=============================================================================
