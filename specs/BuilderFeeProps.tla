--------------------------- MODULE BuilderFeeProps ---------------------------
(* C32 monitors over one flat event of the real helpers:
   [op, size, f, pmin, x, pre, swap, ok, err, r1, r2, post, panic]
     compute   r1 = fee
     clamp     size = fee, x = available, r1 = result
     charge    x = collateral increment, r1 = increment after fee, r2 = fee
     estimate  x = withdrawal amount, swap, r1 = withdrawal incl. estimate
     record    pre = recorded before, x = amount, post = recorded after
     decrease  pre = recorded before, x = output amount, r1 = payable, r2 = paid, post = recorded after *)
EXTENDS BuilderFee

(* fee = executed size times factor (rounded down to a value), converted at the min price, rounded up *)
FeeIs(fee, size, f, pmin) ==
  IF f = 0 THEN fee = 0
  ELSE pmin > 0 /\ LET fv == (size * f) \div Unit IN IsCeil(fee, fv, pmin)
MonFormula(e) ==
  /\ (e.op = "compute" /\ e.ok) => FeeIs(e.r1, e.size, e.f, e.pmin)
  /\ (e.op = "charge" /\ e.ok) => FeeIs(e.r2, e.size, e.f, e.pmin)
  /\ (e.op = "decrease" /\ e.ok) => FeeIs(e.r1, e.size, e.f, e.pmin)
  /\ (e.op = "estimate" /\ e.ok /\ e.f # 0) => (e.r1 >= e.x /\ FeeIs(e.r1 - e.x, e.size, e.f, e.pmin))
(* increase: fee + remaining increment = original increment, or the order fails *)
MonIncrease(e) == (e.op = "charge" /\ e.ok) => (e.r1 + e.r2 = e.x /\ e.r1 >= 0)
(* decrease: the recorded fee never exceeds the final output amount *)
MonDecrease(e) == (e.op = "decrease" /\ e.ok) => (e.post - e.pre <= e.x /\ e.post - e.pre = e.r2 /\ e.r2 <= e.r1)
MonClamp(e) == e.op = "clamp" => (e.r1 <= e.x /\ e.r1 <= e.size /\ (e.r1 = e.x \/ e.r1 = e.size))
(* the record accumulates, or fails and stays *)
MonRecord(e) == e.op = "record" => IF e.ok THEN e.post = e.pre + e.x ELSE e.post = e.pre
MonNoPanic(e) == ~e.panic

Conforms(e) ==
  /\ ~e.panic
  /\ CASE e.op = "compute" -> LET r == Compute(e.size, e.f, e.pmin) IN e.ok = r.ok /\ (e.ok => e.r1 = r.v)
       [] e.op = "clamp" -> e.r1 = Clamp(e.size, e.x)
       [] e.op = "charge" -> LET r == ChargeOnIncrement(e.x, e.size, e.f, e.pmin) IN
                               e.ok = r.ok /\ e.err = r.err /\ (e.ok => (e.r1 = r.after /\ e.r2 = r.fee))
       [] e.op = "estimate" -> LET r == EstimateWithdrawal(e.x, e.size, e.f, e.pmin, e.swap) IN
                               e.ok = r.ok /\ e.err = r.err /\ (e.ok => e.r1 = r.v)
       [] e.op = "record" -> LET r == Record(e.pre, e.x) IN e.ok = r.ok /\ e.err = r.err /\ e.post = r.v
       [] e.op = "decrease" -> LET r == ChargeOnDecrease(e.pre, e.size, e.f, e.pmin, e.x) IN
                               e.ok = r.ok /\ e.post = r.recorded /\ (e.ok => (e.r1 = r.payable /\ e.r2 = r.paid))
=============================================================================
