------------------------------- MODULE BigNum -------------------------------
(* Integers beyond TLC's 32-bit range, as limb sequences: x = [neg, l] with l a sequence of exactly BW
   limbs in 0..BBase-1, MOST significant first; zero has neg = FALSE (canonical form).  Records may
   carry further fields (e.g. the decimal string s, used for equality only).
   Comparison, addition, subtraction, min; all limb arithmetic stays far below 2^31 for BBase = 2^20.
   MC_BigNum checks these operators against integer arithmetic for a small base. *)
EXTENDS Integers, Sequences
CONSTANTS BBase, BW

IsBig(x) == /\ Len(x.l) = BW /\ \A i \in 1..BW : x.l[i] \in 0..(BBase - 1)
            /\ x.neg => \E i \in 1..BW : x.l[i] # 0

RECURSIVE MagCmpFrom(_, _, _)
MagCmpFrom(a, b, i) ==
  IF i > BW THEN 0 ELSE IF a[i] < b[i] THEN -1 ELSE IF a[i] > b[i] THEN 1 ELSE MagCmpFrom(a, b, i + 1)
MagCmp(a, b) == MagCmpFrom(a, b, 1)

BigCmp(x, y) ==
  IF x.neg /\ ~y.neg THEN -1 ELSE IF ~x.neg /\ y.neg THEN 1
  ELSE IF x.neg THEN MagCmp(y.l, x.l) ELSE MagCmp(x.l, y.l)
BigLe(x, y) == BigCmp(x, y) <= 0
BigLt(x, y) == BigCmp(x, y) < 0
BigEq(x, y) == BigCmp(x, y) = 0

(* limbs 1..i of a + b + carry-in at position i (the carry out of the top limb is dropped: callers keep
   BW large enough) *)
RECURSIVE MagAddFrom(_, _, _, _)
MagAddFrom(a, b, i, c) ==
  IF i = 0 THEN <<>> ELSE LET t == a[i] + b[i] + c IN Append(MagAddFrom(a, b, i - 1, t \div BBase), t % BBase)
MagAdd(a, b) == MagAddFrom(a, b, BW, 0)
(* a - b for a >= b *)
RECURSIVE MagSubFrom(_, _, _, _)
MagSubFrom(a, b, i, br) ==
  IF i = 0 THEN <<>>
  ELSE LET t == a[i] - b[i] - br IN
       Append(MagSubFrom(a, b, i - 1, IF t < 0 THEN 1 ELSE 0), IF t < 0 THEN t + BBase ELSE t)
MagSub(a, b) == MagSubFrom(a, b, BW, 0)

Big(neg, l) == [neg |-> neg, l |-> l]
BigZero == Big(FALSE, [i \in 1..BW |-> 0])
BigAdd(x, y) ==
  IF x.neg = y.neg THEN Big(x.neg, MagAdd(x.l, y.l))
  ELSE LET c == MagCmp(x.l, y.l) IN
    IF c = 0 THEN BigZero
    ELSE IF c > 0 THEN Big(x.neg, MagSub(x.l, y.l)) ELSE Big(y.neg, MagSub(y.l, x.l))
BigMin(x, y) == IF BigLe(x, y) THEN x ELSE y
=============================================================================
