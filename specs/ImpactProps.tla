---------------------------- MODULE ImpactProps ----------------------------
(* C03: "A trade or deposit that worsens the pool balance never receives a positive price impact,
   and one that improves it never receives a negative impact.  Applying a balance change and then
   its exact reverse never yields a positive total impact, because the positive factor is never
   allowed to exceed the negative one."  (+ DESIGN: with a virtual inventory the impact is never
   better than without.)

   One event = one impact computation of the real code and the same for the exact reverse delta on
   the state after the delta was applied.
     op      "pool"      BalanceExt::pool_delta_with_amounts(..).price_impact(params) on a pool
             "swap"      SwapMarketExt::swap_impact_value on the market's liquidity pool (+ virtual
                         inventory for swaps), state moved with BaseMarketMutExt::apply_delta
             "position"  PositionExt::position_price_impact on the market's open interest (+ virtual
                         inventory for positions), state moved with apply_delta_to_open_interest
     lo, sh    pool amounts (position: total long / short open interest);  pL, pS token prices
     dL, dS  delta amounts (position: the size delta on the position's own side, the other is 0)
     exp, pos, neg   impact parameters;  isLong (position only)
     hasvi, VL, VS   virtual inventory
     ok, v, bc       impact (virtual inventory included), code's balance change of the returned impact
     ok0, v0, bc0    impact with include_virtual_inventory_impact = FALSE
     moved, L2, S2, VL2, VS2   whether the delta could be applied, and the state afterwards
     rok, rv         impact of the exact reverse delta on that state *)
EXTENDS Impact, TLC

(* the balance of the REAL pool before / after, computed from the logged state (not trusting the
   code's own classification) *)
CurL(e) == e.L * e.pL
CurS(e) == e.S * e.pS
NxtL(e) == CurL(e) + e.dL * e.pL
NxtS(e) == CurS(e) + e.dS * e.pS
Imbalance0(e) == Abs(CurL(e) - CurS(e))
Imbalance1(e) == Abs(NxtL(e) - NxtS(e))
Worsened(e) == Imbalance1(e) > Imbalance0(e)
Improved(e) == Imbalance1(e) < Imbalance0(e)
CrossOver(e) == (CurL(e) <= CurS(e)) # (NxtL(e) <= NxtS(e))

(* Rounding slack of a round trip, in the smallest representable usd value: each of the four
   factor applications is a floor, two enter with each sign. *)
RoundTripSlack == 1

MonNoPanic(e) == ~e.panic
MonWorsened(e) == Worsened(e) => ((e.ok => e.v <= 0) /\ (e.ok0 => e.v0 <= 0))
MonImproved(e) == Improved(e) => ((e.ok => e.v >= 0) /\ (e.ok0 => e.v0 >= 0))
MonRoundTrip(e) == (e.ok /\ e.rok) => e.v + e.rv <= RoundTripSlack
MonVirtual(e) == (e.ok /\ e.ok0) => e.v <= e.v0

(* classification for the known-findings matcher and the bounded model *)
ImpactClass(e) ==
  IF Improved(e) /\ CrossOver(e) THEN "crossover_improved"
  ELSE IF Improved(e) THEN "same_side_improved"
  ELSE IF Worsened(e) THEN "worsened" ELSE "unchanged"

Monitors(e) ==
  << <<"NoPanic", MonNoPanic(e)>>, <<"Worsened", MonWorsened(e)>>, <<"Improved", MonImproved(e)>>,
     <<"RoundTrip", MonRoundTrip(e)>>, <<"Virtual", MonVirtual(e)>> >>

-----------------------------------------------------------------------------
(* The event the precise operators predict (failure = result fields zero). *)
PreciseEvent(op, lo, sh, pL, pS, dL, dS, exp, pos, neg, isLong, hasvi, VL, VS) ==
  LET Imp(l, s, vl, vs, a, b, incl) ==
        CASE op = "pool"  -> PriceImpact(PoolDeltaAmounts(l, s, a, b, pL, pS), pos, neg, exp)
          [] op = "swap"  -> SwapImpact(l, s, hasvi, vl, vs, a, b, pL, pS, pos, neg, exp, incl)
          [] OTHER        -> PositionImpact(l, s, isLong, IF isLong THEN a ELSE b, hasvi, vl, vs,
                                            pos, neg, exp, incl)
      r  == Imp(lo, sh, VL, VS, dL, dS, TRUE)
      r0 == Imp(lo, sh, VL, VS, dL, dS, FALSE)
      m  == IF op = "position" THEN MovePosition(lo, sh, isLong, IF isLong THEN dL ELSE dS, hasvi, VL, VS)
            ELSE MoveSwap(lo, sh, hasvi, VL, VS, dL, dS)
      rr == IF m.ok THEN Imp(m.L, m.S, m.VL, m.VS, -dL, -dS, TRUE) ELSE ImpactFail
  IN [op |-> op, L |-> lo, S |-> sh, pL |-> pL, pS |-> pS, dL |-> dL, dS |-> dS, exp |-> exp,
      pos |-> pos, neg |-> neg, isLong |-> isLong, hasvi |-> hasvi, VL |-> VL, VS |-> VS,
      ok |-> r.ok, v |-> r.v, bc |-> r.bc, ok0 |-> r0.ok, v0 |-> r0.v, bc0 |-> r0.bc,
      moved |-> m.ok, L2 |-> m.L, S2 |-> m.S, VL2 |-> m.VL, VS2 |-> m.VS,
      rok |-> rr.ok, rv |-> rr.v, panic |-> FALSE]

Conforms(e) ==
  e = PreciseEvent(e.op, e.L, e.S, e.pL, e.pS, e.dL, e.dS, e.exp, e.pos, e.neg, e.isLong,
                   e.hasvi, e.VL, e.VS)
=============================================================================
