---------------------------- MODULE TimelockProps ----------------------------
(* C36 monitors.  An event e is one instruction of the real timelock program (or a role change in
   the store / a clock step):
     [op, b, x, ok, pre, post, buffered, delivered, wallet]
   pre/post: abstract states; for op = "execute": buffered = the instruction handed to
   create_instruction_buffer for that buffer, delivered = the instruction the program invoked
   (recorded at the CPI boundary): [prog, metas : Seq([key, signer, writable]), data : Seq(byte)];
   for op = "create": buffered = the instruction being buffered.  holds is a sequence of the approver
   ids in JSON (set here). *)
EXTENDS Timelock, Sequences

(* executes only if approved by a holder who still holds the role, after the delay *)
MonExecute(e) ==
  e.op = "execute" /\ e.ok =>
    /\ e.pre.buf[e.b].st = "approved"
    /\ e.pre.buf[e.b].approver # 0
    /\ e.pre.buf[e.b].approver \in e.pre.holds
    /\ e.pre.now >= e.pre.buf[e.b].at + e.pre.delay
(* approval happens at most once, by a holder of the timelocked role *)
MonApprove(e) ==
  e.op = "approve" /\ e.ok =>
    /\ e.pre.buf[e.b].st = "created" /\ e.pre.buf[e.b].approver = 0
    /\ e.x \in e.pre.holds
    /\ e.post.buf[e.b].approver = e.x /\ e.post.buf[e.b].at = e.pre.now
(* an approval is never altered afterwards *)
MonApprovalStable(e) ==
  \A b \in DOMAIN e.pre.buf :
    e.pre.buf[b].st = "approved" /\ e.post.buf[b].st = "approved" =>
      e.post.buf[b].approver = e.pre.buf[b].approver /\ e.post.buf[b].at = e.pre.buf[b].at
(* the delay can only increase.  Delays beyond TLC's integers (up to u32::MAX) are judged in events
   "increase_delay_big": delays logged as decimal strings (equality only), cmp = sign(post - pre) *)
IsBig(e) == e.op = "increase_delay_big"
MonDelay(e) == IF IsBig(e) THEN e.cmp >= 0 ELSE e.post.delay >= e.pre.delay
(* executed or cancelled buffers cannot run again (nor be approved) *)
MonNoRerun(e) ==
  /\ e.op \in {"execute", "approve", "cancel"} /\ e.pre.buf[e.b].st \in {"executed", "cancelled", "none"} => ~e.ok
  /\ \A b \in DOMAIN e.pre.buf :                       \* (re-creating at the address makes a new, unapproved buffer)
       e.pre.buf[b].st \in {"executed", "cancelled"} =>
         \/ e.post.buf[b].st = e.pre.buf[b].st
         \/ e.op = "create" /\ e.b = b /\ e.post.buf[b].st = "created" /\ e.post.buf[b].approver = 0
(* the executed instruction is exactly the buffered one *)
MonDelivered(e) == e.op = "execute" /\ e.ok => e.delivered = e.buffered
(* only the executor wallet may be marked as signer (at creation and at delivery) *)
OnlyWalletSigns(ix, wallet) == \A k \in DOMAIN ix.metas : ix.metas[k].signer => ix.metas[k].key = wallet
MonSigner(e) ==
  /\ e.op = "create" /\ e.ok => OnlyWalletSigns(e.buffered, e.wallet)
  /\ e.op = "execute" /\ e.ok => OnlyWalletSigns(e.delivered, e.wallet)
(* a failed instruction changes nothing *)
MonFailed(e) == ~e.ok => e.post = e.pre

(* big increase: fits = "pre + delta <= u32::MAX and delta # 0", exact = "post = pre + delta" *)
Conforms(e) ==
  IF IsBig(e) THEN e.ok = e.fits /\ (e.ok => e.exact /\ e.cmp = 1) /\ (~e.ok => e.post = e.pre)
  ELSE LET r == Apply(e.pre, [op |-> e.op, b |-> e.b, x |-> e.x]) IN e.ok = r.ok /\ e.post = r.s
=============================================================================
