----------------------------- MODULE NumProps -----------------------------
(* C01: monitors and laws for the fixed-point helpers.  An event e is one call of a helper of the
   real code: [op, w, a, b, c, d, ok, v, panic]. *)
EXTENDS Num

\* @typeAlias: numEv = {op: Str, w: Int, a: Int, b: Int, c: Int, d: Int, ok: Bool, v: Int, panic: Bool};
NumProps_aliases == TRUE

(* the code's behaviour, including failures the documentation does not require *)
\* @type: ($numEv) => {ok: Bool, v: Int};
Precise(e) ==
  CASE e.op = "mul_div"            -> MulDivFloor(e.a, e.b, e.c)
    [] e.op = "mul_div_ceil"       -> MulDivCeil(e.a, e.b, e.c)
    [] e.op = "mul_div_signed"     -> MulDivSigned(e.a, e.b, e.c)
    [] e.op = "round_up_div"       -> RoundUpDiv(e.a, e.b)
    [] e.op = "round_up_mag_div"   -> RoundUpMagDiv(e.a, e.b)
    [] e.op = "bound_magnitude"    -> BoundMagnitude(e.a, e.b, e.c)
    [] e.op = "add_signed"         -> AddSigned(e.a, e.b)
    [] e.op = "sub_signed"         -> SubSigned(e.a, e.b)
    [] e.op = "mul_signed"         -> MulSigned(e.a, e.b)
    [] e.op = "signed_sub"         -> SignedSub(e.a, e.b)
    [] e.op = "to_signed"          -> ToSigned(e.a)
    [] e.op = "to_opposite_signed" -> ToOppSigned(e.a)
    [] e.op = "diff"               -> Ok(Diff(e.a, e.b))
    [] e.op = "apply_factor"       -> ApplyFactor(e.a, e.b)
    [] e.op = "div_to_factor"      -> DivToFactor(e.a, e.b, e.c = 1)
    [] e.op = "div_to_factor_signed" -> DivToFactorSigned(e.a, e.b)
    [] e.op = "apply_exponent_factor" -> ApplyExponentFactor(e.a, e.b * Unit)
    [] e.op = "apply_factors"      -> ApplyFactors(e.a, e.b, e.c * Unit)
    [] e.op = "pow_fixed"          -> PowFixed(e.a, e.b * Unit)
    [] e.op = "usd_to_mt"          -> UsdToMarketToken(e.a, e.b, e.c, e.d)
    [] e.op = "mt_to_usd"          -> MarketTokenToUsd(e.a, e.b, e.c)
    [] OTHER                       -> Fail

(* the mathematically defined result: differs from Precise only where the code may fail although
   the rounded result is representable *)
\* @type: ($numEv) => {ok: Bool, v: Int};
Math(e) ==
  CASE e.op = "round_up_div"     -> IF e.b = 0 THEN Fail ELSE U(CeilDiv(e.a, e.b))
    [] e.op = "round_up_mag_div" ->
         IF e.a = 0 THEN Fail ELSE S(IF e.b < 0 THEN -CeilDiv(-e.b, e.a) ELSE CeilDiv(e.b, e.a))
    [] e.op = "mul_div_signed"   ->
         IF e.c = 0 THEN Fail
         ELSE S(IF e.b < 0 THEN -FloorDiv(e.a * (-e.b), e.c) ELSE FloorDiv(e.a * e.b, e.c))
    [] e.op = "to_opposite_signed" -> S(-e.a)
    [] e.op = "signed_sub"       -> S(e.a - e.b)
    [] e.op = "mul_signed"       -> S(e.a * e.b)
    [] e.op = "div_to_factor_signed" ->
         IF e.b = 0 THEN Ok(0)
         ELSE S(IF e.a < 0 THEN -FloorDiv(Unit * (-e.a), e.b) ELSE FloorDiv(Unit * e.a, e.b))
    [] e.op = "bound_magnitude" ->
         IF e.b > e.c THEN Fail
         ELSE S(IF Abs(e.a) < e.b THEN (IF e.a < 0 THEN -e.b ELSE e.b)
                ELSE IF Abs(e.a) > e.c THEN (IF e.a < 0 THEN -e.c ELSE e.c) ELSE e.a)
    [] OTHER -> Precise(e)

(* C01 monitor: never panics; a returned value is the exactly rounded, representable result *)
\* @type: ($numEv) => Bool;
MonNoPanic(e) == ~e.panic
\* @type: ($numEv) => Bool;
MonExact(e)   == e.ok => (Math(e).ok /\ e.v = Math(e).v)
\* @type: ($numEv) => Bool;
Conforms(e)   == ~e.panic /\ e.ok = Precise(e).ok /\ (e.ok => e.v = Precise(e).v)
=============================================================================
