----------------------------- MODULE NumProps -----------------------------
(* C01: monitors and laws for the fixed-point helpers.  An event e is one call of a helper of the
   real code: [op, w, a, b, c, d, ok, v, panic]. *)
EXTENDS Num

\* @typeAlias: numEv = {op: Str, w: Int, a: Int, b: Int, c: Int, d: Int, ok: Bool, v: Int, panic: Bool};
NumProps_aliases == TRUE

(* the code's behaviour per helper, including failures the documentation does not require *)
\* @type: ($numEv) => {ok: Bool, v: Int};
Precise_mul_div(e) == MulDivFloor(e.a, e.b, e.c)
\* @type: ($numEv) => {ok: Bool, v: Int};
Precise_mul_div_ceil(e) == MulDivCeil(e.a, e.b, e.c)
\* @type: ($numEv) => {ok: Bool, v: Int};
Precise_mul_div_signed(e) == MulDivSigned(e.a, e.b, e.c)
\* @type: ($numEv) => {ok: Bool, v: Int};
Precise_round_up_div(e) == RoundUpDiv(e.a, e.b)
\* @type: ($numEv) => {ok: Bool, v: Int};
Precise_round_up_mag_div(e) == RoundUpMagDiv(e.a, e.b)
\* @type: ($numEv) => {ok: Bool, v: Int};
Precise_bound_magnitude(e) == BoundMagnitude(e.a, e.b, e.c)
\* @type: ($numEv) => {ok: Bool, v: Int};
Precise_add_signed(e) == AddSigned(e.a, e.b)
\* @type: ($numEv) => {ok: Bool, v: Int};
Precise_sub_signed(e) == SubSigned(e.a, e.b)
\* @type: ($numEv) => {ok: Bool, v: Int};
Precise_mul_signed(e) == MulSigned(e.a, e.b)
\* @type: ($numEv) => {ok: Bool, v: Int};
Precise_signed_sub(e) == SignedSub(e.a, e.b)
\* @type: ($numEv) => {ok: Bool, v: Int};
Precise_to_signed(e) == ToSigned(e.a)
\* @type: ($numEv) => {ok: Bool, v: Int};
Precise_to_opposite_signed(e) == ToOppSigned(e.a)
\* @type: ($numEv) => {ok: Bool, v: Int};
Precise_diff(e) == Ok(Diff(e.a, e.b))
\* @type: ($numEv) => {ok: Bool, v: Int};
Precise_apply_factor(e) == ApplyFactor(e.a, e.b)
\* @type: ($numEv) => {ok: Bool, v: Int};
Precise_div_to_factor(e) == DivToFactor(e.a, e.b, e.c = 1)
\* @type: ($numEv) => {ok: Bool, v: Int};
Precise_div_to_factor_signed(e) == DivToFactorSigned(e.a, e.b)
\* @type: ($numEv) => {ok: Bool, v: Int};
Precise_apply_exponent_factor(e) == ApplyExponentFactor(e.a, e.b * Unit)
\* @type: ($numEv) => {ok: Bool, v: Int};
Precise_apply_factors(e) == ApplyFactors(e.a, e.b, e.c * Unit)
\* @type: ($numEv) => {ok: Bool, v: Int};
Precise_pow_fixed(e) == PowFixed(e.a, e.b * Unit)
\* @type: ($numEv) => {ok: Bool, v: Int};
Precise_usd_to_mt(e) == UsdToMarketToken(e.a, e.b, e.c, e.d)
\* @type: ($numEv) => {ok: Bool, v: Int};
Precise_mt_to_usd(e) == MarketTokenToUsd(e.a, e.b, e.c)

\* @type: ($numEv) => {ok: Bool, v: Int};
Precise(e) ==
  CASE e.op = "mul_div" -> Precise_mul_div(e)
    [] e.op = "mul_div_ceil" -> Precise_mul_div_ceil(e)
    [] e.op = "mul_div_signed" -> Precise_mul_div_signed(e)
    [] e.op = "round_up_div" -> Precise_round_up_div(e)
    [] e.op = "round_up_mag_div" -> Precise_round_up_mag_div(e)
    [] e.op = "bound_magnitude" -> Precise_bound_magnitude(e)
    [] e.op = "add_signed" -> Precise_add_signed(e)
    [] e.op = "sub_signed" -> Precise_sub_signed(e)
    [] e.op = "mul_signed" -> Precise_mul_signed(e)
    [] e.op = "signed_sub" -> Precise_signed_sub(e)
    [] e.op = "to_signed" -> Precise_to_signed(e)
    [] e.op = "to_opposite_signed" -> Precise_to_opposite_signed(e)
    [] e.op = "diff" -> Precise_diff(e)
    [] e.op = "apply_factor" -> Precise_apply_factor(e)
    [] e.op = "div_to_factor" -> Precise_div_to_factor(e)
    [] e.op = "div_to_factor_signed" -> Precise_div_to_factor_signed(e)
    [] e.op = "apply_exponent_factor" -> Precise_apply_exponent_factor(e)
    [] e.op = "apply_factors" -> Precise_apply_factors(e)
    [] e.op = "pow_fixed" -> Precise_pow_fixed(e)
    [] e.op = "usd_to_mt" -> Precise_usd_to_mt(e)
    [] e.op = "mt_to_usd" -> Precise_mt_to_usd(e)
    [] OTHER -> Fail

(* the mathematically defined result: differs from Precise only where the code may fail although
   the rounded result is representable *)
\* @type: ($numEv) => {ok: Bool, v: Int};
Math_mul_div(e) ==
  Precise_mul_div(e)
\* @type: ($numEv) => {ok: Bool, v: Int};
Math_mul_div_ceil(e) ==
  Precise_mul_div_ceil(e)
\* @type: ($numEv) => {ok: Bool, v: Int};
Math_mul_div_signed(e) ==
  IF e.c = 0 THEN Fail
  ELSE S(IF e.b < 0 THEN -FloorDiv(e.a * (-e.b), e.c) ELSE FloorDiv(e.a * e.b, e.c))
\* @type: ($numEv) => {ok: Bool, v: Int};
Math_round_up_div(e) ==
  IF e.b = 0 THEN Fail ELSE U(CeilDiv(e.a, e.b))
\* @type: ($numEv) => {ok: Bool, v: Int};
Math_round_up_mag_div(e) ==
  IF e.a = 0 THEN Fail ELSE S(IF e.b < 0 THEN -CeilDiv(-e.b, e.a) ELSE CeilDiv(e.b, e.a))
\* @type: ($numEv) => {ok: Bool, v: Int};
Math_bound_magnitude(e) ==
  IF e.b > e.c THEN Fail
  ELSE S(IF Abs(e.a) < e.b THEN (IF e.a < 0 THEN -e.b ELSE e.b)
         ELSE IF Abs(e.a) > e.c THEN (IF e.a < 0 THEN -e.c ELSE e.c) ELSE e.a)
\* @type: ($numEv) => {ok: Bool, v: Int};
Math_add_signed(e) ==
  Precise_add_signed(e)
\* @type: ($numEv) => {ok: Bool, v: Int};
Math_sub_signed(e) ==
  Precise_sub_signed(e)
\* @type: ($numEv) => {ok: Bool, v: Int};
Math_mul_signed(e) ==
  S(e.a * e.b)
\* @type: ($numEv) => {ok: Bool, v: Int};
Math_signed_sub(e) ==
  S(e.a - e.b)
\* @type: ($numEv) => {ok: Bool, v: Int};
Math_to_signed(e) ==
  Precise_to_signed(e)
\* @type: ($numEv) => {ok: Bool, v: Int};
Math_to_opposite_signed(e) ==
  S(-e.a)
\* @type: ($numEv) => {ok: Bool, v: Int};
Math_diff(e) ==
  Precise_diff(e)
\* @type: ($numEv) => {ok: Bool, v: Int};
Math_apply_factor(e) ==
  Precise_apply_factor(e)
\* @type: ($numEv) => {ok: Bool, v: Int};
Math_div_to_factor(e) ==
  Precise_div_to_factor(e)
\* @type: ($numEv) => {ok: Bool, v: Int};
Math_div_to_factor_signed(e) ==
  IF e.b = 0 THEN Ok(0)
  ELSE S(IF e.a < 0 THEN -FloorDiv(Unit * (-e.a), e.b) ELSE FloorDiv(Unit * e.a, e.b))
\* @type: ($numEv) => {ok: Bool, v: Int};
Math_apply_exponent_factor(e) ==
  Precise_apply_exponent_factor(e)
\* @type: ($numEv) => {ok: Bool, v: Int};
Math_apply_factors(e) ==
  Precise_apply_factors(e)
\* @type: ($numEv) => {ok: Bool, v: Int};
Math_pow_fixed(e) ==
  Precise_pow_fixed(e)
\* @type: ($numEv) => {ok: Bool, v: Int};
Math_usd_to_mt(e) ==
  Precise_usd_to_mt(e)
\* @type: ($numEv) => {ok: Bool, v: Int};
Math_mt_to_usd(e) ==
  Precise_mt_to_usd(e)

\* @type: ($numEv) => {ok: Bool, v: Int};
Math(e) ==
  CASE e.op = "mul_div" -> Math_mul_div(e)
    [] e.op = "mul_div_ceil" -> Math_mul_div_ceil(e)
    [] e.op = "mul_div_signed" -> Math_mul_div_signed(e)
    [] e.op = "round_up_div" -> Math_round_up_div(e)
    [] e.op = "round_up_mag_div" -> Math_round_up_mag_div(e)
    [] e.op = "bound_magnitude" -> Math_bound_magnitude(e)
    [] e.op = "add_signed" -> Math_add_signed(e)
    [] e.op = "sub_signed" -> Math_sub_signed(e)
    [] e.op = "mul_signed" -> Math_mul_signed(e)
    [] e.op = "signed_sub" -> Math_signed_sub(e)
    [] e.op = "to_signed" -> Math_to_signed(e)
    [] e.op = "to_opposite_signed" -> Math_to_opposite_signed(e)
    [] e.op = "diff" -> Math_diff(e)
    [] e.op = "apply_factor" -> Math_apply_factor(e)
    [] e.op = "div_to_factor" -> Math_div_to_factor(e)
    [] e.op = "div_to_factor_signed" -> Math_div_to_factor_signed(e)
    [] e.op = "apply_exponent_factor" -> Math_apply_exponent_factor(e)
    [] e.op = "apply_factors" -> Math_apply_factors(e)
    [] e.op = "pow_fixed" -> Math_pow_fixed(e)
    [] e.op = "usd_to_mt" -> Math_usd_to_mt(e)
    [] e.op = "mt_to_usd" -> Math_mt_to_usd(e)
    [] OTHER -> Fail

(* C01 monitor: never panics; a returned value is the exactly rounded, representable result *)
\* @type: ($numEv) => Bool;
MonNoPanic(e) == ~e.panic
\* @type: ($numEv, {ok: Bool, v: Int}) => Bool;
ExactWith(e, m) == e.ok => (m.ok /\ e.v = m.v)
\* @type: ($numEv, {ok: Bool, v: Int}) => Bool;
ConformsWith(e, p) == ~e.panic /\ e.ok = p.ok /\ (e.ok => e.v = p.v)
\* @type: ($numEv) => Bool;
MonExact(e)   == ExactWith(e, Math(e))
\* @type: ($numEv) => Bool;
Conforms(e)   == ConformsWith(e, Precise(e))
=============================================================================
