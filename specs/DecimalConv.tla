---------------------------- MODULE DecimalConv ----------------------------
(* C43.  The SDK conversions between on-chain fixed-point integers and rust_decimal::Decimal
   (crates/sdk/src/utils/fixed.rs), written like the code, over constants so that the same text is
   model checked on a scaled-down world and bound to the real code on values that fit TLC's integers.

   A Decimal is [neg, m, s]: value = (-1)^neg * m / 10^s with m <= MaxRepr (96 bits in the real
   world) and s <= MaxScale (28).

     real world                         scaled-down world (MC_DecimalConv)
     MaxRepr  = 2^96 - 1                1023
     MaxScale = 28  (= ilog10 MaxRepr)  3
     MaxU     = 2^128 - 1               16383
     MaxI     = 2^127 - 1               8191
     AmtMax   = 2^64 - 1                63
     AmtScale = 19  (MAX_SCALE_FOR_U64) 1
     PowMax   = 38  (10^k fits i128)    3                                                        *)
EXTENDS Integers, Sequences

CONSTANTS MaxRepr, MaxScale, MaxU, MaxI, AmtMax, AmtScale, PowMax

RECURSIVE Pow10(_)
Pow10(k) == IF k = 0 THEN 1 ELSE 10 * Pow10(k - 1)
RECURSIVE ILog10(_)
ILog10(x) == IF x < 10 THEN 0 ELSE 1 + ILog10(x \div 10)          \* x > 0
Abs(x) == IF x < 0 THEN -x ELSE x
Min(a, b) == IF a < b THEN a ELSE b

(* x \div 10^k for x < 10^10 (every integer TLC can hold) without evaluating an overflowing power *)
DivPow10(x, k) == IF k > 9 THEN 0 ELSE x \div Pow10(k)

TargetScale == ILog10(MaxRepr) - 1                                 \* TARGET_SCALE

Dec(neg, m, s) == [neg |-> neg, m |-> m, s |-> s]
Zero == Dec(FALSE, 0, 0)                                           \* Decimal::ZERO
(* result of a conversion to Decimal: st in {"some", "none", "panic"} *)
Some(dec) == [st |-> "some", dec |-> dec]
None      == [st |-> "none", dec |-> Zero]
Panic     == [st |-> "panic", dec |-> Zero]

(* unsigned_fixed_to_decimal(num: u128, decimals: u8) -> Option<Decimal> *)
UnsignedFixedToDec(x, d) ==
  IF x > MaxRepr
  THEN LET diff == ILog10(x) - TargetScale IN                       \* convert_by_change_the_scale
       IF d < diff THEN None
       ELSE IF d - diff > MaxScale THEN Panic                       \* Decimal::from_i128_with_scale panics
       ELSE Some(Dec(FALSE, x \div Pow10(diff), d - diff))
  ELSE IF d > MaxScale THEN None                                     \* try_from_i128_with_scale(..).ok()
       ELSE Some(Dec(FALSE, x, d))

(* signed_fixed_to_decimal(num: i128, decimals) : sign applied to the unsigned conversion *)
SignedFixedToDec(n, d) ==
  LET r == UnsignedFixedToDec(Abs(n), d) IN
  IF r.st = "some" THEN Some(Dec(n < 0, r.dec.m, r.dec.s)) ELSE r

(* unsigned_amount_to_decimal(num: u64, decimals: u8) -> Decimal ; `.expect` = panic on None *)
UnsignedAmountToDec(x, d) ==
  LET r == IF d > MaxScale
           THEN IF d - MaxScale > AmtScale THEN Some(Zero)
                ELSE UnsignedFixedToDec(DivPow10(x, d - MaxScale), MaxScale)
           ELSE UnsignedFixedToDec(x, d) IN
  IF r.st = "none" THEN Panic ELSE r
SignedAmountToDec(n, d) ==
  LET r == UnsignedAmountToDec(Abs(n), d) IN
  IF r.st = "some" THEN Some(Dec(n < 0, r.dec.m, r.dec.s)) ELSE r

(* rust_decimal 1.37 Decimal::rescale (ops::array::rescale with rounding) *)
RECURSIVE Down(_, _, _)
Down(m, k, rem) ==        \* k divisions by ten; stops early (no rounding) once the value is zero
  IF k = 0 THEN (IF rem >= 5 THEN m + 1 ELSE m)
  ELSE IF m = 0 THEN 0
  ELSE Down(m \div 10, k - 1, m % 10)
RECURSIVE Up(_, _, _)
Up(m, s, t) ==            \* multiply by ten while the 96-bit mantissa does not overflow
  IF s = t \/ m > MaxRepr \div 10 THEN [m |-> m, s |-> s] ELSE Up(m * 10, s + 1, t)
Rescale(dec, t) ==
  IF dec.s = t THEN dec
  ELSE IF dec.m = 0 THEN Dec(dec.neg, 0, Min(t, MaxScale))
  ELSE IF dec.s > t THEN Dec(dec.neg, Down(dec.m, dec.s - t, 0), t)
  ELSE LET u == Up(dec.m, dec.s, t) IN Dec(dec.neg, u.m, u.s)

Ok(v) == [ok |-> TRUE, v |-> v, panic |-> FALSE]
Err   == [ok |-> FALSE, v |-> 0, panic |-> FALSE]
(* 10i128.checked_pow(k).and_then(|p| mantissa.checked_mul(p)) *)
MulPow10(M, k) ==
  IF k > PowMax THEN Err
  ELSE IF M = 0 THEN Ok(0)
  ELSE IF k > 9 THEN Err                      \* |M| * 10^k > 2^31 > MaxI in every world TLC can hold
  ELSE IF Abs(M) > MaxI \div Pow10(k) THEN Err
  ELSE Ok(M * Pow10(k))

(* The error messages of rescale_to_mantissa format the rescaled Decimal.  Decimal::rescale can leave
   a scale above MaxScale behind (it multiplies while the mantissa fits, without looking at the scale),
   and Display of such a value overflows rust_decimal's fixed string buffer ("0." + scale digits + sign
   > 32 characters in the real world): the error path panics instead of returning Err. *)
FormatPanics(dec) == dec.s + (IF dec.neg THEN 1 ELSE 0) > MaxScale + 2

(* rescale_to_mantissa(value, decimals) = decimal_to_signed_value *)
DecToSigned(dec, t) ==
  LET r == Rescale(dec, t)
      M == IF r.neg THEN -r.m ELSE r.m IN
  IF r.s < t THEN LET p == MulPow10(M, t - r.s) IN
                  IF p.ok THEN p ELSE [p EXCEPT !.panic = FormatPanics(r)]
  ELSE IF r.s = t THEN Ok(M)
  ELSE Err
(* decimal_to_value: i128 -> u128 ; decimal_to_amount: i128 -> u64 *)
DecToValue(dec, t)  == LET r == DecToSigned(dec, t) IN IF ~r.ok \/ r.v >= 0 THEN r ELSE Err
DecToAmount(dec, t) == LET r == DecToSigned(dec, t) IN IF ~r.ok \/ (r.v >= 0 /\ r.v <= AmtMax) THEN r ELSE Err
=============================================================================
