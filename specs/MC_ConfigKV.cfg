SPECIFICATION Spec
CONSTANTS
  Depth = 1
INVARIANTS IReadBack IFrame IRejected IParam IConf ITables IDefault IIsolation ISides
CHECK_DEADLOCK FALSE
