SPECIFICATION Spec
CONSTANTS
  MaxI64 = 2147483646
  Nanos = 1000000000
POSTCONDITION Done
CHECK_DEADLOCK FALSE
