--------------------------------- MODULE Gt ---------------------------------
(* GT state of the store program (programs/store/src/states/gt.rs, user.rs, order.rs), written
   like the code.
   Configuration c = [step (grow_step_amount), grow (minting cost grow factor, in GUnit-ths: the real
   factor is grow * 10^20 / GUnit), cost0 (initial minting cost), ranks (strictly increasing
   thresholds), window (exchange time window)].
   State s = [supply, total, steps, cost, vault (gt_vault),
              users : Seq([amount, rank, utotal, paid, mintedv]),
              ev : [init, confirmed, ts, amount]   (the current GtExchangeVault),
              ex : Seq(Int)                        (GtExchange amounts per user),
              now]
   Every action returns [ok, err, s, out]. *)
EXTENDS Integers, Sequences

CONSTANT GUnit

R(ok, err, s, out) == [ok |-> ok, err |-> err, s |-> s, out |-> out]
NoOut == [minted |-> 0, value |-> 0, cost |-> 0]

RECURSIVE Grow(_, _, _)
(* next_minting_cost: one sequential floor per new step *)
Grow(cost, grow, k) == IF k <= 0 THEN cost ELSE Grow((cost * grow) \div GUnit, grow, k - 1)

(* unchecked_update_rank: binary_search(amount): Ok(i) -> i + 1, Err(i) -> i *)
RankOf(ranks, amount) == LET S == {i \in DOMAIN ranks : ranks[i] <= amount} IN
  IF S = {} THEN 0 ELSE CHOOSE i \in S : \A j \in S : j <= i

Init0(c, nusers, now) ==
  [supply |-> 0, total |-> 0, steps |-> 0, cost |-> c.cost0, vault |-> 0,
   users |-> [i \in 1..nusers |-> [amount |-> 0, rank |-> 0, utotal |-> 0, paid |-> 0, mintedv |-> 0]],
   ev |-> [init |-> FALSE, confirmed |-> FALSE, ts |-> 0, amount |-> 0],
   ex |-> [i \in 1..nusers |-> 0], now |-> now]

(* GtState::mint_to (state part) *)
MintS(c, s, u, n) ==
  IF n = 0 THEN s
  ELSE LET total == s.total + n
           steps == total \div c.step
           usr   == s.users[u]
       IN [s EXCEPT !.total = total, !.steps = steps,
                    !.cost = IF steps # s.steps THEN Grow(s.cost, c.grow, steps - s.steps) ELSE s.cost,
                    !.supply = s.supply + n,
                    !.users[u] = [usr EXCEPT !.amount = usr.amount + n, !.utotal = usr.utotal + n,
                                             !.rank = RankOf(c.ranks, usr.amount + n)]]
Mint(c, s, u, n) == R(TRUE, "", MintS(c, s, u, n), NoOut)

(* GtState::unchecked_burn_from *)
Burn(c, s, u, n) ==
  IF n = 0 THEN R(TRUE, "", s, NoOut)
  ELSE IF s.users[u].amount < n THEN R(FALSE, "NotEnoughTokenAmount", s, NoOut)
  ELSE IF s.supply < n THEN R(FALSE, "Internal", s, NoOut)
  ELSE R(TRUE, "", [s EXCEPT !.supply = s.supply - n,
                             !.users[u] = [s.users[u] EXCEPT !.amount = s.users[u].amount - n,
                                                             !.rank = RankOf(c.ranks, s.users[u].amount - n)]], NoOut)

(* Order::unchecked_process_gt(paid_fee_value = usd): get_mint_amount + mint_to *)
MintForValue(c, s, u, usd) ==
  IF usd = 0 THEN R(TRUE, "", s, NoOut)
  ELSE LET usr == s.users[u]
           nextPaid == usr.paid + usd
           value == nextPaid - usr.mintedv
       IN IF nextPaid < usr.mintedv THEN R(FALSE, "InvalidUserAccount", s, NoOut)
          ELSE IF s.cost = 0 THEN R(FALSE, "InvalidGTConfig", s, NoOut)
          ELSE LET minted == value \div s.cost
                   dv     == value - (value % s.cost)
                   s1     == MintS(c, s, u, minted)
               IN R(TRUE, "", [s1 EXCEPT !.users[u] = [s1.users[u] EXCEPT !.paid = nextPaid, !.mintedv = usr.mintedv + dv]],
                    [minted |-> minted, value |-> value, cost |-> s.cost])

WindowIndex(ts, w) == ts \div w          \* non-negative timestamps only

(* GtExchangeVault::init at the current time (a fresh vault account) *)
NewVault(c, s) ==
  R(TRUE, "", [s EXCEPT !.ev = [init |-> TRUE, confirmed |-> FALSE, ts |-> s.now, amount |-> 0]], NoOut)

(* GtState::unchecked_request_exchange; burn and deposit happen in one transaction, an error
   reverts both *)
RequestExchange(c, s, u, n) ==
  IF ~s.ev.init THEN R(FALSE, "InvalidArgument", s, NoOut)
  ELSE LET b == Burn(c, s, u, n) IN
    IF ~b.ok THEN R(FALSE, b.err, s, NoOut)
    ELSE IF s.ev.confirmed THEN R(FALSE, "PreconditionsAreNotMet", s, NoOut)
    ELSE IF WindowIndex(s.now, c.window) # WindowIndex(s.ev.ts, c.window) THEN R(FALSE, "InvalidArgument", s, NoOut)
    ELSE R(TRUE, "", [b.s EXCEPT !.ev.amount = s.ev.amount + n, !.ex[u] = s.ex[u] + n], NoOut)

(* GtState::unchecked_confirm_exchange_vault *)
ConfirmVault(c, s) ==
  IF ~s.ev.init THEN R(FALSE, "InvalidArgument", s, NoOut)
  ELSE IF s.ev.confirmed THEN R(FALSE, "PreconditionsAreNotMet", s, NoOut)
  ELSE IF ~(WindowIndex(s.now, c.window) > WindowIndex(s.ev.ts, c.window)) THEN R(FALSE, "PreconditionsAreNotMet", s, NoOut)
  ELSE R(TRUE, "", [s EXCEPT !.ev.confirmed = TRUE, !.vault = s.vault + s.ev.amount], NoOut)

Tick(c, s, d) == R(TRUE, "", [s EXCEPT !.now = s.now + d], NoOut)

Apply(c, s, a) ==
  CASE a.op = "mint"    -> Mint(c, s, a.u, a.n)
    [] a.op = "burn"    -> Burn(c, s, a.u, a.n)
    [] a.op = "mfv"     -> MintForValue(c, s, a.u, a.n)
    [] a.op = "request" -> RequestExchange(c, s, a.u, a.n)
    [] a.op = "confirm" -> ConfirmVault(c, s)
    [] a.op = "newvault" -> NewVault(c, s)
    [] a.op = "tick"    -> Tick(c, s, a.n)
=============================================================================
