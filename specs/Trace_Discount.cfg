SPECIFICATION Spec
CONSTANTS
  Unit = 10000
POSTCONDITION Done
CHECK_DEADLOCK FALSE
