------------------------------ MODULE MC_Graph ------------------------------
(* Bounded exhaustive model for C42: every graph over Tokens tokens with 1..MaxMarkets markets
   (ordered, as they are inserted), every pair of edge costs out of Costs, every step limit 1..MaxK.
   Invariants: the search as specified (Graph!Search) satisfies the monitors for every source/target;
   and the brute-force definitions are cross-checked: without a negative cycle the cheapest
   market-simple path costs exactly what the cheapest token-simple path costs (walking through a
   token twice never helps), with one the search may legitimately differ.
   Selected graphs are printed ("G|{...}") and replayed by the driver into the real MarketGraph. *)
EXTENDS GraphProps, TLC, Json
CONSTANTS Tokens, MaxMarkets, MaxK, Costs, PrintMod
VARIABLES stage, nm, g, k
vars == <<stage, nm, g, k>>

CostsQuick    == {-1, 0, 2}
CostsThorough == {-2, 0, 1, NoEdge}
Pairs == {p \in (1..Tokens) \X (1..Tokens) : p[1] < p[2]}
MK    == [a : 1..Tokens, b : 1..Tokens, cab : Costs, cba : Costs]
MKs   == {m \in MK : m.a < m.b}

RECURSIVE SumCosts(_)
SumCosts(s) == IF s = <<>> THEN 0 ELSE Head(s).cab * 3 + Head(s).cba + Head(s).a + SumCosts(Tail(s))
Printed(gr, kk) == Len(gr.mk) < MaxMarkets \/ (SumCosts(gr.mk) + kk) % PrintMod = 0

Init == stage = 0 /\ nm \in 1..MaxMarkets /\ k \in 1..MaxK /\ g = [n |-> Tokens, mk |-> <<>>]
Gen  == /\ stage = 0
        /\ \E mk \in [1..nm -> MKs] : g' = [n |-> Tokens, mk |-> mk]
        /\ stage' = 1
        /\ UNCHANGED <<nm, k>>
        /\ Printed(g', k) => PrintT("G|" \o ToJson([g |-> g', k |-> k]))
Next == Gen
Spec == Init /\ [][Next]_vars

IAll ==
  stage = 1 =>
    LET neg == NegCycle(g) IN
    \A src \in 1..Tokens, dst \in 1..Tokens :
      LET s == Search(g, src, dst, k)
          r == [src |-> src, dst |-> dst, err |-> FALSE, found |-> s.found, path |-> s.path,
                cost |-> s.cost, rate_ok |-> TRUE] IN
      /\ MonValid(g, k, r) /\ MonRate(g, k, r) /\ MonBest(g, k, r, neg)
      /\ ~neg => Best(g, src, dst, k) = BestSimple(g, src, dst, k)
      /\ src = dst => s.found
=============================================================================
