--------------------------- MODULE MC_PositionC09 ---------------------------
(* C09 on the design: fixtures (4 markets x {empty, healthy, thin, nearly insolvent} positions of either
   side and collateral token, with pending borrowing / funding fees, virtual inventory, small pools
   where the pnl factor exceeds the ADL limit) x 5 index prices (incl. min # max) x operations
   (increase, decrease incl. pure collateral withdrawal / partial / full / capped, liquidation order,
   ADL order).  The monitors of PositionProps are evaluated on the result of the precise operators
   (Increase, Decrease, LiquidationOrder, AdlOrder); every case is printed (C|json) for replay into the
   real code.  Two levels (seed -> case) only so that TLC's workers share the evaluation. *)
EXTENDS PositionFixtures, Sequences, TLC, Json
CONSTANTS MarketIds, PriceIds, Colls
VARIABLE cas
Emit(tag, x) == PrintT(tag \o "|" \o ToJson(x))
Named(n, b) == b \/ (PrintT("INVFAIL|" \o n) /\ FALSE)

IndexPrice(k) == CASE k = 1 -> Pr(6, 6) [] k = 2 -> Pr(8, 9) [] k = 3 -> Pr(10, 10) [] k = 4 -> Pr(12, 12) [] k = 5 -> Pr(15, 16)
PriceSet(k) == Px(IndexPrice(k), IndexPrice(k), Pr(10, 10))

MarketK(k) ==
  CASE k = 1 -> [Market0(Cfg0) EXCEPT !.pool = P2(500, 5000), !.ip = 20,
                                      !.oi = P4(100, 0, 0, 100), !.oit = P4(10, 0, 0, 10)]
    [] k = 2 -> [Market0([Cfg0 EXCEPT !.minPnlAdl = 1]) EXCEPT !.pool = P2(6, 6), !.ip = 5]
    [] k = 3 -> [Market0([Cfg0 EXCEPT !.fadj = 10, !.minCollFLiq = 0, !.maxImpLiq = 1]) EXCEPT
                    !.pool = P2(500, 5000), !.ip = 20, !.oi = P4(200, 50, 50, 0), !.oit = P4(20, 5, 5, 0),
                    !.bf = P2(3, 2), !.fps = P4(2, 1, 1, 2), !.cfps = P4(1, 1, 1, 1),
                    !.vi = [on |-> TRUE, L |-> 300, S |-> 0]]
    [] k = 4 -> [Market0([Cfg0 EXCEPT !.pf = 2, !.nf = 2, !.iexp = Unit, !.maxPnlTrader = 2, !.liqF = 0]) EXCEPT
                    !.pool = P2(40, 400), !.ip = 0, !.oi = P4(0, 50, 100, 200), !.oit = P4(0, 5, 10, 20)]

(* position fixtures: none, or size 100 / 10 tokens (entry price 10) with collateral `co` tokens;
   in market 3 the position lags the market's borrowing / funding indices *)
PosK(mk, long, clong, co) ==
  IF co = 0 THEN EmptyPos(long, clong)
  ELSE [Pos(long, clong, co, 100, 10) EXCEPT !.bf = IF mk = 3 THEN 1 ELSE 0]

Ops(p) ==
  IF p.size = 0
  THEN { [op |-> "increase", dcoll |-> dc, dsize |-> ds, wd |-> 0, insolvent |-> FALSE, cap |-> FALSE] :
           dc \in {3, 10, 40}, ds \in {20, 100, 300} }
  ELSE { [op |-> "increase", dcoll |-> x[1], dsize |-> x[2], wd |-> 0, insolvent |-> FALSE, cap |-> FALSE] :
           x \in { <<5, 0>>, <<0, 50>>, <<5, 50>>, <<10, 200>> } }
       \cup
       { [op |-> "decrease", dcoll |-> 0, dsize |-> x[1], wd |-> x[2], insolvent |-> x[3], cap |-> x[4]] :
           x \in { <<0, 1, FALSE, FALSE>>, <<0, p.coll, FALSE, FALSE>>, <<30, 0, FALSE, FALSE>>, <<50, 2, FALSE, FALSE>>,
                   <<95, 0, FALSE, FALSE>>, <<100, 0, FALSE, FALSE>>, <<100, 5, TRUE, FALSE>>, <<150, 0, FALSE, TRUE>>,
                   <<150, 0, FALSE, FALSE>> } }
       \cup
       { [op |-> "liquidate", dcoll |-> 0, dsize |-> ds, wd |-> 0, insolvent |-> TRUE, cap |-> FALSE] : ds \in {100, 120} }
       \cup
       { [op |-> "adl", dcoll |-> 0, dsize |-> ds, wd |-> 0, insolvent |-> TRUE, cap |-> FALSE] : ds \in {50, 100} }

Init == \E mk \in MarketIds, pk \in PriceIds, long \in BOOLEAN :
          cas = [stage |-> 0, mk |-> mk, pk |-> pk, long |-> long]
Next ==
  /\ cas.stage = 0
  /\ \E clong \in BOOLEAN, co \in Colls :
       LET p == PosK(cas.mk, cas.long, clong, co)
           m == IF co = 0 THEN MarketK(cas.mk) ELSE WithPos(MarketK(cas.mk), p)
       IN \E o \in Ops(p) :
            cas' = [stage |-> 1, op |-> o.op, m |-> m, p |-> p, px |-> PriceSet(cas.pk),
                    a |-> [dcoll |-> o.dcoll, dsize |-> o.dsize, acc |-> -1, wd |-> o.wd,
                           insolvent |-> o.insolvent, cap |-> o.cap]]

Ev ==
  LET pre == [m |-> cas.m, p |-> cas.p]
      e0  == [reset |-> FALSE, op |-> cas.op, tag |-> "", px |-> cas.px, a |-> cas.a, pre |-> pre, ok |-> FALSE,
              post |-> pre, rep |-> ZeroRep, adl |-> [ex |-> FALSE, f0 |-> 0, f1 |-> 0], rt |-> FALSE, panic |-> FALSE]
      r   == Apply(e0)
  IN [e0 EXCEPT !.ok = r.ok, !.post = [m |-> r.m, p |-> r.p], !.rep = r.rep]

Inv ==
  cas.stage = 1 =>
    LET e == Ev IN
    /\ Named("IncreaseHealthy", MonIncreaseHealthy(e))
    /\ Named("DecreaseHealthy", MonDecreaseHealthy(e))
    /\ Named("Liquidation", MonLiquidation(e))
    /\ Named("Adl", MonAdl(e))
    /\ Emit("C", [op |-> cas.op, m |-> cas.m, p |-> cas.p, px |-> cas.px, a |-> cas.a])
    /\ Emit("R", [op |-> cas.op, ok |-> e.ok, remove |-> e.rep.remove, step |-> e.rep.step])
=============================================================================
