INIT Init
NEXT Next
CONSTANTS
  Unit = 10
  MaxU = 2147483647
  MaxS = 2147483647
  Values = {0, 1, 2, 3, 5, 9, 17, 40, 123, 1000}
  Sizes = {0, 1, 2, 7, 10, 33, 50, 99, 640}
  PricesSet = {1, 3, 11}
  Adj = 10
INVARIANTS InvBackedOnce InvBackedEach InvBracket InvEmit
CHECK_DEADLOCK FALSE
