------------------------------- MODULE Authz -------------------------------
(* Access control of the program entrypoints over the role store.

   A signer is described by what the role store and the target accounts say about it:
     grants   the set of (enabled) roles it holds                 Store.role / RoleStore::has_role
     isAdmin  it is the store authority                           Store::has_admin_role
     isOwner  it is the owner / authority named by the account the instruction acts on
   Two tables over the instruction names:
     Req[i]   the documented requirement, classified by hand:
              [open, admin, roles, owner] - satisfied iff   open
                                                         \/ (admin /\ isAdmin)
                                                         \/ (one of roles is held)
                                                         \/ (owner /\ isOwner)
     Impl[i]  what the code was MEASURED to enforce: [accepts] = the signer classes that executed the
              instruction successfully with a valid account set:
                "admin"    the store authority (holding no role)
                "none"     a signer with no role, not the authority, not the owner
                "role:R"   a signer holding exactly role R
                "owner"    the owner named by the target account (holding no role)
   Invoke(signer, i) succeeds iff the signer matches one of the accepted classes: a class that was
   accepted with fewer privileges is accepted with more (holding an additional role never makes the
   programs reject). *)
EXTENDS Integers, FiniteSets, Sequences

ToSet(seq) == {seq[j] : j \in DOMAIN seq}

Satisfies(req, grants, isAdmin, isOwner) ==
  \/ req.open
  \/ (req.admin /\ isAdmin)
  \/ (ToSet(req.roles) \cap grants # {})
  \/ (req.owner /\ isOwner)

Matches(class, grants, isAdmin, isOwner) ==
  \/ class = "none"
  \/ (class = "admin" /\ isAdmin)
  \/ (class = "owner" /\ isOwner)
  \/ \E r \in grants : class = "role:" \o r

Accepts(impl, grants, isAdmin, isOwner) ==
  \E c \in ToSet(impl.accepts) : Matches(c, grants, isAdmin, isOwner)

(* the privileges of the measured signer classes themselves *)
ClassGrants(class, pool) == {r \in pool : class = "role:" \o r}
ClassSatisfies(req, class, pool) ==
  Satisfies(req, ClassGrants(class, pool), class = "admin", class = "owner")
=============================================================================
