INIT Init
NEXT Next
VIEW View
CONSTANTS
  GUnit = 10
  NUsers = 2
  MaxTotal = 6
  MaxDepth = 4
  Amounts = {0, 1, 2, 3}
  Usds = {1, 4, 7}
  Steps = {2}
  Grows = {15, 20}
  Cost0s = {1, 3}
  RankTables <- RankTablesQuick
  Window = 2
INVARIANTS InvState
PROPERTIES PTotalMonotone PMintForValue PMintBurn
CHECK_DEADLOCK FALSE
