--------------------------- MODULE Trace_FeedOpen ---------------------------
EXTENDS FeedOpenProps, TraceLib
VARIABLE i
Init == i = 0
Next ==
  /\ i < NRec
  /\ i' = i + 1
  /\ LET e == Rec[i'] IN
       /\ Judge(i', << <<"NoPanic", MonNoPanic(e)>>, <<"OpenIff", MonOpenIff(e)>>,
                       <<"Openness", MonOpenness(e)>> >>)
       /\ Drift(i', Conforms(e), e.op)
Spec == Init /\ [][Next]_i
Done == Emit("DONE", [events |-> TLCGet("stats").diameter - 1])
=============================================================================
