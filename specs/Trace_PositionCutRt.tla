------------------------- MODULE Trace_PositionCutRt -------------------------
(* Trace validation of the runtime binding of C09 (driver h-runtime c09rt). *)
EXTENDS PositionCutRt, TraceLib
VARIABLE i
Init == i = 0
Next ==
  /\ i < NRec
  /\ i' = i + 1
  /\ LET e == Rec[i'] IN
       /\ Judge(i', << <<"rt.LiqRemoves",          MonLiqRemoves(e)>>,
                       <<"rt.LiqOnlyLiquidatable", MonLiqOnlyLiquidatable(e)>>,
                       <<"rt.Adl",                 MonAdl(e)>>,
                       <<"rt.AdlSwitch",           MonAdlSwitch(e)>>,
                       <<"rt.FailUnchanged",       MonFailUnchanged(e)>> >>)
       /\ Drift(i', Conforms(e), e.op)
Spec == Init /\ [][Next]_i
Done == Emit("DONE", [events |-> TLCGet("stats").diameter - 1])
=============================================================================
