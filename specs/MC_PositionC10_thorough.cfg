INIT Init
NEXT Next
CONSTANTS
  Unit = 10
  MaxU = 2147483647
  MaxS = 2147483647
  SizesC = {20, 50, 100, 200}
  CollsC = {3, 8, 20, 60}
  PriceIds = {1, 2, 3}
  SettingIds = {1, 2, 3, 4, 5, 6}
  FixtureIds = {1, 2, 3, 4, 5, 6}
INVARIANT Inv
CHECK_DEADLOCK FALSE
