--------------------------- MODULE ActionLifecycle ---------------------------
(* Life cycle of a user action of the store program (deposit, withdrawal, swap order, shift), shaped
   like the code: utils/internal/action.rs (Create / Close), instructions/exchange/execute_*.rs,
   ops/{deposit,withdrawal,order,shift}.rs, crates/utils/src/action.rs (ActionState).

   A state s is a record of functions over the actions A = DOMAIN s.st, plus one scalar:
     st[a]      "none"       the action account does not exist and never did
                "pending" | "completed" | "cancelled"   ActionHeader.action_state of the account
                "closed"     the account existed and was closed
     strict[a]  BOOLEAN  created with an unreachable minimum output (execution fails on slippage)
     expired[a] BOOLEAN  more than `request_expiration` seconds have passed since creation (kept
                         after the action is executed or closed)
     esc[a]     Int      input tokens held by the action's escrow account
     own[a]     Int      the owner's balance of the input token   (relative to the start)
     out[a], out2[a]     output tokens held by the action's (first / second) output escrow
     ownOut[a], ownOut2[a]  the owner's balances of those output tokens (relative to the start)
     lam[a]     Int      lamports held by the action account and its escrow token accounts
     ownLam[a]  Int      the owner's lamports (relative to the start)
     keeperLam  Int      the keeper's lamports (relative to the start)
   Every action has its own owner.  Actors: "owner" (of that action), "keeper" (holds ORDER_KEEPER),
   "stranger" (no role).

   An operation is a record [op, a, by, strict, mode]:
     create   signed by the owner: escrow accounts + create_*        (strict: minimum output unreachable)
     execute  by \in actors, mode "normal" (throw_on_execution_error = false), "throw" (= true),
              "badacct" (a vault account of the wrong token is passed)
     close    by \in actors
     tick     request_expiration + 1 seconds pass (every pending action expires), prices republished
   P = [amt, cost, fee]: input amount, lamports the owner pays at creation (rent of the action and
   escrow accounts + execution fee), execution fee the keeper claims.

   Apply returns [ok, st]: ok = FALSE is a failed instruction (Solana rolls the transaction back,
   st = the old state).  The amounts of OUTPUT tokens an execution produces are market arithmetic
   (other specifications); here a successful execution only says esc' = 0 and leaves out/out2 to the
   trace (`OutFree` in ActionLifecycleProps). *)
EXTENDS Integers, FiniteSets

Actors == {"owner", "keeper", "stranger"}
Modes  == {"normal", "throw", "badacct"}
Terminal(x) == x \in {"completed", "cancelled"}
Exists(x)   == x \in {"pending", "completed", "cancelled"}

Ok(s)  == [ok |-> TRUE,  st |-> s]
Rej(s) == [ok |-> FALSE, st |-> s]

ActionsOf(s) == DOMAIN s.st

InitState(A) ==
  [st |-> [a \in A |-> "none"], strict |-> [a \in A |-> FALSE], expired |-> [a \in A |-> FALSE],
   esc |-> [a \in A |-> 0], own |-> [a \in A |-> 0],
   out |-> [a \in A |-> 0], out2 |-> [a \in A |-> 0], ownOut |-> [a \in A |-> 0], ownOut2 |-> [a \in A |-> 0],
   lam |-> [a \in A |-> 0], ownLam |-> [a \in A |-> 0], keeperLam |-> 0]

(* create_*: Anchor `init` of the action PDA fails when the account exists; the owner pays rent and
   execution fee into the action account and moves the input tokens into the escrow. *)
Create(s, a, strict, P) ==
  IF s.st[a] # "none" THEN Rej(s)
  ELSE Ok([s EXCEPT !.st[a] = "pending", !.strict[a] = strict, !.expired[a] = FALSE,
                    !.esc[a] = P.amt, !.own[a] = @ - P.amt,
                    !.lam[a] = P.cost, !.ownLam[a] = @ - P.cost])

(* execute_*: only_order_keeper; the action account must exist; escrow -> vault; execution inside
   oracle.with_prices; Ok(false) (soft failure: expired request or any execution error such as
   slippage) when throw_on_execution_error = false => cancelled + tokens back to the escrow;
   header.completed() / cancelled() accept only Pending; the execution fee is paid at the end in both
   cases.  A non-pending action cannot be executed: a completed one has an empty escrow (the
   transfer fails), a cancelled one fails at cancelled()/completed(). *)
WouldFail(s, a) == s.strict[a] \/ s.expired[a]

Execute(s, a, by, mode, P) ==
  IF by # "keeper" THEN Rej(s)
  ELSE IF s.st[a] # "pending" THEN Rej(s)
  ELSE IF mode = "badacct" THEN Rej(s)
  ELSE IF WouldFail(s, a)
       THEN IF mode = "throw" THEN Rej(s)
            ELSE Ok([s EXCEPT !.st[a] = "cancelled", !.lam[a] = @ - P.fee, !.keeperLam = @ + P.fee])
       ELSE Ok([s EXCEPT !.st[a] = "completed", !.esc[a] = 0,
                         !.lam[a] = @ - P.fee, !.keeperLam = @ + P.fee])

(* close_*: Close::preprocess - the owner in any state; anybody else needs ORDER_KEEPER and a
   terminal state.  Every escrow is emptied into the owner's token accounts, escrow accounts and the
   action account are closed to the owner (rent receiver). *)
Close(s, a, by) ==
  IF ~Exists(s.st[a]) THEN Rej(s)
  ELSE IF by = "stranger" THEN Rej(s)
  ELSE IF by = "keeper" /\ ~Terminal(s.st[a]) THEN Rej(s)
  ELSE Ok([s EXCEPT !.st[a] = "closed",
                    !.own[a] = @ + s.esc[a], !.esc[a] = 0,
                    !.ownOut[a] = @ + s.out[a], !.out[a] = 0,
                    !.ownOut2[a] = @ + s.out2[a], !.out2[a] = 0,
                    !.ownLam[a] = @ + s.lam[a], !.lam[a] = 0])

(* time passes beyond the request expiration of every action created so far *)
Tick(s) == Ok([s EXCEPT !.expired = [a \in ActionsOf(s) |-> s.st[a] # "none" \/ s.expired[a]]])

Apply(s, o, P) ==
  CASE o.op = "create"  -> Create(s, o.a, o.strict, P)
    [] o.op = "execute" -> Execute(s, o.a, o.by, o.mode, P)
    [] o.op = "close"   -> Close(s, o.a, o.by)
    [] o.op = "tick"    -> Tick(s)

(* the operations attempted from a state (a closed address is not created again: that would be a
   new action) *)
Ops(A) ==
  {[op |-> "create", a |-> a, by |-> "owner", strict |-> b, mode |-> "normal"] : a \in A, b \in BOOLEAN}
  \cup {[op |-> "execute", a |-> a, by |-> by, strict |-> FALSE, mode |-> m] : a \in A, by \in Actors, m \in Modes}
  \cup {[op |-> "close", a |-> a, by |-> by, strict |-> FALSE, mode |-> "normal"] : a \in A, by \in Actors}
  \cup {[op |-> "tick", a |-> "none", by |-> "none", strict |-> FALSE, mode |-> "normal"]}

Enabled(s, o) == ~(o.op = "create" /\ s.st[o.a] = "closed")

(* ActionState::completed / cancelled (crates/utils/src/action.rs): only from Pending *)
DirectOk(from) == from = "pending"
=============================================================================
