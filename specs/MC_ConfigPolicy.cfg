INIT Init
NEXT Next
CONSTANTS
  MaxDepth = 2
VIEW View
CONSTRAINT Bound
INVARIANTS EmitPath
PROPERTY StepProps
CHECK_DEADLOCK FALSE
