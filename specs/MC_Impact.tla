------------------------------ MODULE MC_Impact ------------------------------
(* Bounded exhaustive model for C03.  Every impact computation over a finite domain; the invariant
   is the monitors of ImpactProps applied to the event predicted by the precise operators.
   Parts of the domain:
     grid      op "pool": pool amounts x two-sided deltas x price pairs x exponents x factor pairs
     sweep     op "pool": short side fixed at Mid, long side and its delta sweep 0..2*Mid, so every
               (initial imbalance, next imbalance) in 0..Mid, same-side and cross-over, occurs
     swap      op "swap": liquidity pool with / without a virtual inventory
     position  op "position": open interest with / without a virtual inventory, one-sided deltas
   The domain is printed once (DOM|json) and handed to the driver, which enumerates exactly the
   same tuples through the real code.  Two levels (Init / Pick) only so that TLC's workers share
   the enumeration. *)
EXTENDS ImpactProps, Json, Sequences
CONSTANT Tier        \* "quick" or "thorough"

Q == Tier = "quick"
Dom == [
  poolAmts   |-> IF Q THEN {0, 2, 9, 13, 24, 30}
                      ELSE {0, 2, 5, 9, 10, 13, 17, 24, 30},
  deltaAmts  |-> IF Q THEN {-30, -17, -10, -1, 0, 1, 4, 17, 30}
                      ELSE {-30, -24, -17, -10, -4, -1, 0, 1, 4, 7, 10, 17, 30},
  pricePairs |-> IF Q THEN {<<1, 1>>, <<2, 3>>} ELSE {<<1, 1>>, <<2, 3>>, <<3, 1>>},
  exps       |-> {Unit, 2 * Unit, 3 * Unit},
  factorPairs |-> IF Q THEN {<<0, 3>>, <<1, 2>>, <<2, 2>>, <<3, 1>>, <<1, 6>>, <<4, 5>>, <<6, 6>>}
                       ELSE {<<0, 3>>, <<1, 2>>, <<2, 2>>, <<3, 1>>, <<1, 6>>, <<4, 5>>, <<6, 1>>, <<6, 6>>},
  mid        |-> IF Q THEN 24 ELSE 48,
  swapAmts   |-> IF Q THEN {0, 7, 20, 30} ELSE {0, 3, 7, 12, 20, 30},
  swapDeltas |-> {-20, -8, -3, 0, 3, 8, 20},
  viAmts     |-> IF Q THEN {0, 12} ELSE {0, 9, 25},
  swapPrices |-> {<<1, 1>>, <<2, 1>>},
  oiAmts     |-> IF Q THEN {0, 5, 10, 14, 22, 30} ELSE {0, 2, 5, 10, 11, 14, 22, 30},
  posDeltas  |-> IF Q THEN {-30, -14, -9, -5, -1, 1, 5, 9, 14, 30}
                      ELSE {-30, -22, -14, -9, -5, -1, 0, 1, 5, 9, 14, 22, 30},
  smallFactorPairs |-> {<<1, 2>>, <<2, 2>>, <<3, 1>>, <<1, 6>>}
]
ASSUME PrintDomain == PrintT("DOM|" \o ToJson(Dom))

VARIABLES ready, part, op, lo, sh, price, dL, dS, exp, fac, isLong, vi
vars == <<ready, part, op, lo, sh, price, dL, dS, exp, fac, isLong, vi>>
NoVI == <<-1, -1>>                       \* vi = <<VL, VS>> or NoVI
VIs == {NoVI} \cup (Dom.viAmts \X Dom.viAmts)

Init ==
  /\ ready = FALSE /\ price = <<1, 1>> /\ dL = 0 /\ dS = 0 /\ exp = Unit /\ fac = <<0, 0>>
  /\ isLong = FALSE /\ vi = NoVI
  /\ \/ part = "grid" /\ op = "pool" /\ lo \in Dom.poolAmts /\ sh \in Dom.poolAmts
     \/ part = "sweep" /\ op = "pool" /\ lo \in 0..(2 * Dom.mid) /\ sh = Dom.mid
     \/ part = "swap" /\ op = "swap" /\ lo \in Dom.swapAmts /\ sh \in Dom.swapAmts
     \/ part = "position" /\ op = "position" /\ lo \in Dom.oiAmts /\ sh \in Dom.oiAmts
Pick ==
  /\ ~ready /\ ready' = TRUE /\ UNCHANGED <<part, op, lo, sh>>
  /\ \/ /\ part = "grid" /\ dL' \in Dom.deltaAmts /\ dS' \in Dom.deltaAmts
        /\ price' \in Dom.pricePairs /\ exp' \in Dom.exps /\ fac' \in Dom.factorPairs
        /\ UNCHANGED <<isLong, vi>>
     \/ /\ part = "sweep" /\ dL' \in (-lo)..(2 * Dom.mid - lo) /\ dS' = 0
        /\ price' = <<1, 1>> /\ exp' \in Dom.exps /\ fac' \in Dom.factorPairs
        /\ UNCHANGED <<isLong, vi>>
     \/ /\ part = "swap" /\ dL' \in Dom.swapDeltas /\ dS' \in Dom.swapDeltas
        /\ price' \in Dom.swapPrices /\ exp' = 2 * Unit /\ fac' \in Dom.smallFactorPairs
        /\ vi' \in VIs /\ UNCHANGED isLong
     \/ /\ part = "position" /\ isLong' \in BOOLEAN
        /\ \E d \in Dom.posDeltas : dL' = (IF isLong' THEN d ELSE 0) /\ dS' = (IF isLong' THEN 0 ELSE d)
        /\ price' = <<1, 1>> /\ exp' \in {Unit, 2 * Unit} /\ fac' \in Dom.smallFactorPairs
        /\ vi' \in VIs
Next == Pick

Ev == PreciseEvent(op, lo, sh, price[1], price[2], dL, dS, exp, fac[1], fac[2], isLong,
                   vi # NoVI, IF vi = NoVI THEN 0 ELSE vi[1], IF vi = NoVI THEN 0 ELSE vi[2])

(* Monitors on the design.  MonImproved is asserted on the complement of the recorded finding class
   (a cross-over rebalance that improves the balance can get a negative impact). *)
InvMonitors ==
  ready => LET e == Ev IN
    /\ MonWorsened(e)
    /\ ImpactClass(e) # "crossover_improved" => MonImproved(e)
    /\ MonRoundTrip(e)
    /\ MonVirtual(e)
(* nothing overflows or fails for another reason than an underflowing pool in the small world *)
InvNoSurprise ==
  ready => LET e == Ev IN
    (e.L * e.pL + e.dL * e.pL >= 0 /\ e.S * e.pS + e.dS * e.pS >= 0) => e.ok0

(* the recorded finding, one concrete input: pool long 30 / short 10 (prices 1), delta long -30:
   imbalance 20 -> 10, improved, crosses over; positive factor 1/10, negative factor 6/10, exponent 1:
   impact = floor(20*1/10) - floor(10*6/10) = 2 - 6 = -4 *)
Witness == PreciseEvent("pool", 30, 10, 1, 1, -30, 0, Unit, 1, 6, FALSE, FALSE, 0, 0)
ASSUME WitnessFails == /\ Witness.ok /\ Witness.v = -4 /\ Improved(Witness) /\ CrossOver(Witness)
                       /\ ~MonImproved(Witness) /\ ImpactClass(Witness) = "crossover_improved"
(* the round-trip slack is needed (calibration): same side 15 -> 14 -> 15 with factors 4/10 and 5/10,
   exponent 1: +(floor(60/10) - floor(56/10)) - (floor(75/10) - floor(70/10)) = 1 - 0 = +1 *)
SlackWitness == PreciseEvent("pool", 15, 0, 1, 1, -1, 0, Unit, 4, 5, FALSE, FALSE, 0, 0)
ASSUME SlackIsTight == SlackWitness.ok /\ SlackWitness.rok /\ SlackWitness.v + SlackWitness.rv = RoundTripSlack
=============================================================================
