--------------------------- MODULE Trace_BuilderFee ---------------------------
EXTENDS BuilderFeeProps, TraceLib
VARIABLE i
Init == i = 0
Next ==
  /\ i < NRec
  /\ i' = i + 1
  /\ LET e == Rec[i'] IN
       /\ Judge(i', << <<"NoPanic", MonNoPanic(e)>>, <<"Formula", MonFormula(e)>>, <<"Increase", MonIncrease(e)>>,
                       <<"Decrease", MonDecrease(e)>>, <<"Clamp", MonClamp(e)>>, <<"Record", MonRecord(e)>> >>)
       /\ Drift(i', Conforms(e), e.op)
Spec == Init /\ [][Next]_i
Done == Emit("DONE", [events |-> TLCGet("stats").diameter - 1])
=============================================================================
