------------------------------- MODULE Feed -------------------------------
(* Custom price feed (programs/store/src/states/oracle/feed.rs, PriceFeed::update), written like
   the code: the same order of checks, the same failure cases.
   Abstract feed state: [slot, pub, ts, price, min, max]
     slot = last_published_at_slot, pub = last_published_at, ts = price.ts,
     price/min/max = price.price / min_price / max_price.
   An update request: [price, min, max, ts, slot, now, excess, idem]
     slot/now = Clock (slot, unix_timestamp) at the call, excess = max_future_excess,
     idem = idempotent mode.
   Result: [res, err, st]  res in {"ok" (Ok(true)), "skip" (Ok(false)), "err"}. *)
EXTENDS Integers

ZeroFeed == [slot |-> 0, pub |-> 0, ts |-> 0, price |-> 0, min |-> 0, max |-> 0]

R(res, err, st) == [res |-> res, err |-> err, st |-> st]

(* The update, generic in how numbers are compared: Lt(a, b) is a < b, Exceeds(ts, now, excess) is
   ts > now + excess with the code's saturating addition.  The small tier instantiates them with
   integer arithmetic, the type-limit tier (FeedBigProps) with limb arithmetic on the real values. *)
UpdateG(f, u, Lt(_, _), Exceeds(_, _, _)) ==
  IF Lt(u.slot, f.slot) THEN R("err", "PreconditionsAreNotMet", f)
  ELSE IF Lt(u.now, f.pub) THEN R("err", "PreconditionsAreNotMet", f)
  ELSE IF u.idem /\ Lt(u.ts, f.ts) THEN R("skip", "", f)
  ELSE IF Lt(u.ts, f.ts) THEN R("err", "InvalidArgument", f)
  ELSE IF Exceeds(u.ts, u.now, u.excess) THEN R("err", "InvalidArgument", f)
  ELSE IF Lt(u.max, u.min) THEN R("err", "InvalidArgument", f)
  ELSE IF Lt(u.max, u.price) THEN R("err", "InvalidArgument", f)
  ELSE IF Lt(u.price, u.min) THEN R("err", "InvalidArgument", f)
  ELSE R("ok", "", [slot |-> u.slot, pub |-> u.now, ts |-> u.ts,
                    price |-> u.price, min |-> u.min, max |-> u.max])

Update(f, u) == UpdateG(f, u, LAMBDA a, b : a < b, LAMBDA ts, now, ex : now + ex < ts)
=============================================================================
