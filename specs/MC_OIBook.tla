------------------------------ MODULE MC_OIBook ------------------------------
(* C07, design level: the open-interest / collateral bookkeeping of increase, decrease (partial, full,
   capped, collateral-only) and liquidation, transcribed from IncreasePosition::execute,
   DecreasePosition::{check_partial_close, execute} and PositionMutExt::update_open_interest, on an
   abstract market: three position slots, pools by side and collateral token.  Costs (fees, losses)
   and promotions to a full close for collateral reasons are nondeterministic, so every bookkeeping
   path of the code is covered whatever the fee configuration is.
   Promote = TRUE is the code; Promote = FALSE removes the "token size would be driven to zero"
   promotion of check_partial_close (the production regression) and must violate C07.
   Operation scripts of explored behaviours are printed (T|...) and replayed on the real code. *)
EXTENDS MarketHistProps, TLC, Json
CONSTANTS Promote, MaxDepth, MinSize, Sample
VARIABLES ps, oi, oit, col, price, depth, hist, removed
vars == <<ps, oi, oit, col, price, depth, hist, removed>>
View == <<ps, oi, oit, col, price, depth, removed>>

(* slot k: 1 = long / long-token collateral, 2 = long / short-token collateral, 3 = short / short-token *)
Slots == <<[long |-> TRUE, cl |-> TRUE, slot |-> 1], [long |-> TRUE, cl |-> FALSE, slot |-> 2],
           [long |-> FALSE, cl |-> FALSE, slot |-> 4]>>
Z22 == <<<<0, 0>>, <<0, 0>>>>
M == [oi |-> oi, oit |-> oit, col |-> col]
Cfg == [max_oi |-> 100000]
Prices == {8, 10, 12}                    \* index price: -20 %, 0, +20 %

Init ==
  /\ ps = [k \in 1..3 |-> [long |-> Slots[k].long, cl |-> Slots[k].cl, size |-> 0, tok |-> 0, col |-> 0]]
  /\ oi = Z22 /\ oit = Z22 /\ col = Z22 /\ price = 10 /\ depth = 0 /\ hist = <<>> /\ removed = 0

Step(op) == depth < MaxDepth /\ depth' = depth + 1 /\ hist' = Append(hist, op)

(* IncreasePosition: sizes grow by exactly the deltas that update_open_interest receives; the collateral
   pool moves by the collateral delta (increment minus costs); a position that would end with a zero
   size fails validation (whole action discarded) *)
Increase(k, dusd, inc, cost) ==
  LET p    == ps[k]
      dtok == IF p.long THEN dusd \div price ELSE CeilDiv(dusd, price)
      cd   == inc - cost
      q    == [p EXCEPT !.size = p.size + dusd, !.tok = p.tok + dtok, !.col = p.col + cd]
      o    == ApplyOIDelta(M, Cfg, p.long, p.cl, dusd, dtok)
  IN /\ p.col + cd >= 0 /\ q.size > 0 /\ q.tok > 0 /\ q.size >= MinSize /\ o.ok
     /\ ps' = [ps EXCEPT ![k] = q]
     /\ oi' = o.oi /\ oit' = o.oit
     /\ col' = Set22(col, Ix(p.long), Ix(p.cl), col[Ix(p.long)][Ix(p.cl)] + cd)
     /\ removed' = 0 /\ UNCHANGED price
     /\ Step([op |-> "increase", pos |-> Slots[k].slot, size |-> dusd,
              coll |-> IF p.cl THEN inc ELSE inc * 10])

(* DecreasePosition: flags.init (cap or reject), check_partial_close (promotion), check_close,
   size_delta_in_tokens, should_remove, collateral sum, update_open_interest *)
Decrease(k, req, wd, cap, cost, forceFull, liq) ==
  LET p     == ps[k]
      d0    == IF req > p.size THEN p.size ELSE req
      d1    == IF d0 < p.size /\ (forceFull
                                  \/ p.size - d0 < MinSize
                                  \/ (Promote /\ p.tok <= SizeDeltaInTokens(p.long, p.size, p.tok, d0).v))
               THEN p.size ELSE d0
      full  == d1 = p.size
      wd1   == IF full THEN 0 ELSE Min(wd, p.col)
      dtok  == SizeDeltaInTokens(p.long, p.size, p.tok, d1).v
      ntok  == p.tok - dtok
      nsize == p.size - d1
      rem   == nsize = 0 \/ ntok = 0
      ncol  == IF rem THEN 0 ELSE p.col - Min(cost + wd1, p.col)
      q     == IF rem THEN [p EXCEPT !.size = 0, !.tok = 0, !.col = 0]
               ELSE [p EXCEPT !.size = nsize, !.tok = ntok, !.col = ncol]
      o     == ApplyOIDelta(M, Cfg, p.long, p.cl, -d1, -dtok)
  IN /\ p.size > 0 \/ p.tok > 0 \/ p.col > 0           \* not empty
     /\ req <= p.size \/ cap                             \* invalid decrease order size
     /\ ntok >= 0 /\ o.ok
     /\ ~rem => (q.size > 0 /\ q.tok > 0)                 \* validate
     /\ liq => req = p.size
     /\ ps' = [ps EXCEPT ![k] = q]
     /\ oi' = o.oi /\ oit' = o.oit
     /\ col' = Set22(col, Ix(p.long), Ix(p.cl), col[Ix(p.long)][Ix(p.cl)] - (p.col - q.col))
     /\ removed' = (IF rem THEN k ELSE 0) /\ UNCHANGED price
     /\ Step([op |-> "decrease", pos |-> Slots[k].slot, size |-> req,
              wd |-> IF p.cl THEN wd ELSE wd * 10, cap |-> cap, liq |-> liq, ins |-> liq])

Move(np) == /\ np # price /\ price' = np /\ removed' = 0 /\ UNCHANGED <<ps, oi, oit, col>>
            /\ Step([op |-> "price", imin |-> np, lmin |-> np])

(* decrease requests: <<requested size, collateral withdrawal, cap flag, cost, forced full close>> *)
Requests(k) ==
  LET z == ps[k].size IN
  { <<0, 2, FALSE, 0, FALSE>>,                                   \* collateral-only withdrawal
    <<1, 0, FALSE, 0, FALSE>>, <<1, 0, FALSE, 3, FALSE>>,         \* rounds the token delta to zero / to everything
    <<z \div 2, 0, FALSE, 0, FALSE>>, <<z \div 2, 2, FALSE, 3, FALSE>>,
    <<z \div 2, 0, FALSE, 0, TRUE>>,                              \* promoted for collateral reasons
    <<z, 0, FALSE, 3, FALSE>>, <<z, 2, FALSE, 0, FALSE>>,          \* full close
    <<z + 5, 0, TRUE, 0, FALSE>>, <<z + 5, 0, FALSE, 0, FALSE>> } \* capped / rejected
Next ==
  \/ \E k \in 1..3, dusd \in {0, 15, 47}, ic \in {<<0, 0>>, <<4, 1>>} : Increase(k, dusd, ic[1], ic[2])
  \/ \E k \in 1..3 : \E r \in Requests(k) : Decrease(k, r[1], r[2], r[3], r[4], r[5], FALSE)
  \/ \E k \in 1..3 : Decrease(k, ps[k].size, 0, FALSE, 5, FALSE, TRUE)
  \/ \E np \in Prices : Move(np)
Spec == Init /\ [][Next]_vars

Pos == [k \in 1..3 |-> ps[k]]
InvOIUsd     == C07_OIUsd(M, Pos)
InvOITokens  == C07_OITokens(M, Pos)
InvCollateral == C07_CollateralSum(M, Pos)
InvRemoved   == removed # 0 => (ps[removed].size = 0 /\ ps[removed].tok = 0 /\ ps[removed].col = 0)
(* operation scripts for replay on the real code: behaviours that end after a removal or at full depth *)
Digest == ps[1].size + 3 * ps[2].size + 7 * ps[3].size + 11 * ps[1].tok + 13 * ps[3].tok + depth
InvEmit == ((depth = MaxDepth \/ removed # 0) /\ Digest % Sample = 0) =>
             PrintT("T|" \o ToJson([ops |-> hist]))
=============================================================================
