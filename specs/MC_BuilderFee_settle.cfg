INIT Init
NEXT Next
VIEW View
CONSTANTS
  Unit = 10
  MaxU = 1000000
  MaxS = 1000000
  Max64 = 100000
  Kind = "settle"
  MaxSize = 0
  MaxF = 0
  MaxP = 0
  MaxX = 0
  MaxAmt = 3
  MaxDepth = 6
INVARIANTS InvNonNeg
PROPERTIES PSettle
CHECK_DEADLOCK FALSE
