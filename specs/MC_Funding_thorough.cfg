INIT Init
NEXT Next
CONSTANTS
  Unit = 10
  MaxU = 2147483647
  MaxS = 2147483647
  MaxOI = 90
INVARIANTS InvRateBounds InvLargerSidePays InvMinMax InvStored InvEmit
CHECK_DEADLOCK FALSE
