SPECIFICATION Spec
CONSTANTS
  Tokens = 3
  MaxMarkets = 3
  MaxK = 3
  Costs <- CostsThorough
  PrintMod = 6
INVARIANTS IAll
CHECK_DEADLOCK FALSE
