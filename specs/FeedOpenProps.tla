--------------------------- MODULE FeedOpenProps ---------------------------
(* C27 monitors.  An event is one call on the real code:
     op = "is_open"  : PriceFeedPrice::is_market_open(now, timeout, flags) -> open
     op = "openness" : MarketStatus::openness(flags)                       -> res ("open"/"closed"/"skip")
   flags is the 6-bit policy set (bit k = k-th MarketStatusFlag), hi = unused container bits set. *)
EXTENDS FeedOpen

\* @typeAlias: foEv = {op: Str, st: Int, flags: Int, hi: Int, openf: Bool, tracking: Bool, secs: Bool, diff: Int, ts: Int, now: Int, timeout: Int, open: Bool, res: Str, panic: Bool};
FeedOpenProps_aliases == TRUE

\* @type: ($foEv) => Bool;
MonNoPanic(e) == ~e.panic

(* open exactly when: status not closed under the policy, open flag, and (tracking) both the report
   and the underlying last update no older than the timeout *)
\* @type: ($foEv) => Bool;
MonOpenIff(e) ==
  e.op = "is_open" /\ ~e.panic =>
    (e.open <=> /\ ~Closed(e.st, e.flags)
                /\ e.openf
                /\ (e.tracking => /\ e.now - e.ts <= e.timeout
                                  /\ e.now - (e.ts - DiffSecs(e.secs, e.diff)) <= e.timeout))

\* @type: ($foEv) => Bool;
MonOpenness(e) == e.op = "openness" /\ ~e.panic => e.res = Openness(e.st, e.flags)

\* @type: ($foEv) => Bool;
MonAll(e) == MonNoPanic(e) /\ MonOpenIff(e) /\ MonOpenness(e)

\* @type: ($foEv) => Bool;
Conforms(e) ==
  /\ ~e.panic
  /\ e.op = "is_open" =>
       e.open = CodeOpen(e.st, e.flags, e.openf, e.tracking, e.secs, e.diff, e.ts, e.now, e.timeout)
  /\ e.op = "openness" => e.res = Openness(e.st, e.flags)
=============================================================================
