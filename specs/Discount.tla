------------------------------ MODULE Discount ------------------------------
(* Order fee discount (programs/store/src/states/store.rs Store::order_fee_discount_factor,
   states/gt.rs GtState::{set_order_fee_discount_factors, order_fee_discount_factor};
   SDK copy: crates/programs/src/utils/store.rs).  Unit is "100 %"; the code's unit is 10^20.
   Results are records [ok, v]. *)
EXTENDS Integers, Sequences

CONSTANT
  \* @type: Int;
  Unit

Ok(v) == [ok |-> TRUE, v |-> v]
Fail  == [ok |-> FALSE, v |-> 0]

(* the arithmetic of the referred case on the rank discount a and the referral discount b:
   b + floor(a * (Unit - b) / Unit); fails when b > Unit (checked_sub) *)
Combine(a, b) == IF b > Unit THEN Fail ELSE Ok(b + (a * (Unit - b)) \div Unit)

(* ---- laws on one (a, b) pair, shared by the TLC monitors and the wide tier (Apalache) ---- *)
\* @type: (Int) => Bool;
InRange(v) == 0 <= v /\ v <= Unit
(* 1 - (1 - a)(1 - b) scaled by Unit^2 is Unit*b + a*(Unit - b); "up to rounding" = less than one ulp *)
\* @type: (Int, Int, Int) => Bool;
WithinUlp(v, a, b) == LET x == Unit * b + a * (Unit - b) IN v * Unit - x < Unit /\ x - v * Unit < Unit

(* factors: the rank table (1-based sequence for ranks 0..maxRank), b the referral discount *)
D(factors, b, rank, referred) ==
  IF rank + 1 > Len(factors) THEN Fail                   \* rank > max_rank
  ELSE IF referred THEN Combine(factors[rank + 1], b)
  ELSE Ok(factors[rank + 1])

(* GtState::set_order_fee_discount_factors on a state with `maxRank` *)
SetOk(maxRank, factors) == Len(factors) = maxRank + 1 /\ \A i \in DOMAIN factors : factors[i] <= Unit
=============================================================================
