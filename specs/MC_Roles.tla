------------------------------- MODULE MC_Roles -------------------------------
(* Bounded model: Addr addresses x Names role names (RESTART_ADMIN among them), capacities
   MaxRoles / MaxMembers, all operation sequences up to Depth.  State invariants: the ghost state
   (history) equals the abstraction of the implementation-shaped state, and the state monitors
   hold; the step monitors are asserted on EVERY generated transition (an Assert failure is reported
   by the glue as a calibration error).  `hist` is hidden by the VIEW, so it is the shortest (BFS)
   path to each distinct state; every generated transition is printed as that path plus the
   operation, i.e. every (reachable state, operation) pair of the bounded model - including the
   failing operations and the ones that lead back to a known state - is replayed on the real Store. *)
EXTENDS RolesProps, Sequences, Json
CONSTANTS Addr, Names, MaxRoles, MaxMembers, Authority, Depth
VARIABLES s, g, hist
vars == <<s, g, hist>>
view == <<s, g>>

O(st) == Obs(st, Addr, Names)

Init ==
  /\ s = InitState(MaxRoles, MaxMembers, Authority)
  /\ g = Ghost0
  /\ hist = <<>>

Do(op, a, r) ==
  LET res == Step(s, op, a, r)
      e   == [op |-> op, a |-> a, r |-> r, ok |-> res.ok, err |-> res.err]
      g1  == GhostNext(g, e)
  IN /\ Len(hist) < Depth
     /\ Assert(AllHold(StepMonitors(g, e, O(s), O(res.s), MaxRoles, MaxMembers)), <<"step monitor fails", e, hist>>)
     /\ s' = res.s
     /\ g' = g1
     /\ hist' = Append(hist, [op |-> op, a |-> a, r |-> r])
     /\ PrintT("P|" \o ToJson(hist'))

DoEnable  == \E r \in Names : Do("enable", "", r)
DoDisable == \E r \in Names : Do("disable", "", r)
DoGrant   == \E a \in Addr, r \in Names : Do("grant", a, r)
DoRevoke  == \E a \in Addr, r \in Names : Do("revoke", a, r)
DoRestart == Do("restart", "", "")
DoUpdate  == Do("update", "", "")
Next == DoEnable \/ DoDisable \/ DoGrant \/ DoRevoke \/ DoRestart \/ DoUpdate
Spec == Init /\ [][Next]_vars

IAbstraction == g = Abs(s)
IMonitors    == AllHold(StateMonitors(g, O(s), Authority))
(* structure of the maps: bit indices are unique and below the number of roles; no empty member *)
IStructure ==
  /\ \A r1, r2 \in DOMAIN s.roles : r1 # r2 => s.roles[r1].idx # s.roles[r2].idx
  /\ \A r \in DOMAIN s.roles : s.roles[r].idx < NumRoles(s)
  /\ \A a \in DOMAIN s.members : s.members[a] # {} /\ s.members[a] \subseteq {s.roles[r].idx : r \in DOMAIN s.roles}
  /\ NumRoles(s) <= MaxRoles /\ NumMembers(s) <= MaxMembers
  /\ s.stored <= s.cur
=============================================================================
