---------------------------- MODULE Trace_FeedBig ----------------------------
EXTENDS FeedBigProps, TraceLib
VARIABLE i
Init == i = 0
Next ==
  /\ i < NRec
  /\ i' = i + 1
  /\ LET e == Rec[i'] IN
       /\ Judge(i', << <<"NoPanic", MonNoPanic(e)>>,
                       <<"TsMonotone", BMonTsMonotone(e)>>,
                       <<"StoredValid", BMonStoredValid(e)>>,
                       <<"RejectedUnchanged", MonRejectedUnchanged(e)>>,
                       <<"SkipUnchanged", MonSkipUnchanged(e)>>,
                       <<"IdemOlder", BMonIdemOlder(e)>>,
                       <<"StoresRequest", MonStoresRequest(e)>>,
                       <<"Chain", (i' > 1 /\ ~e.reset) => e.pre = Rec[i' - 1].post>> >>)
       /\ Drift(i', BWellFormed(e) /\ BConforms(e), e.res)
Spec == Init /\ [][Next]_i
Done == Emit("DONE", [events |-> TLCGet("stats").diameter - 1])
=============================================================================
