----------------------------- MODULE Trace_Authz -----------------------------
(* Trace validation for C19: every event is one REAL instruction executed by the in-process runtime
   with a valid account set by one signer class:
   [instr, class, ok, err, code, panic, changed_before_rollback, db_changed, world, runtime_error, src].
   The requirement table is read from the JSON file named by AUTHZ (same file as MC_Authz). *)
EXTENDS AuthzProps, TraceLib
VARIABLE i

Data == JsonDeserialize(IOEnv.AUTHZ)
Pool == ToSet(Data.pool)

Init == i = 0
Next ==
  /\ i < NRec
  /\ i' = i + 1
  /\ LET e == Rec[i']
         req == Data.instr[e.instr].req
     IN
       /\ Judge(i', << <<"RejectsUnprivileged", MonRejectsUnprivileged(e, req, Pool)>>,
                       <<"RejectionUnchanged",  MonRejectionUnchanged(e)>> >>)
       \* conformance: the measured table is exactly the requirement table for this class, or the
       \* privileged signer failed for a reason other than a permission error
       /\ Drift(i', e.ok \/ ~ClassSatisfies(req, e.class, Pool) \/ ~e.autherr, e.instr)
Spec == Init /\ [][Next]_i
Done == Emit("DONE", [events |-> TLCGet("stats").diameter - 1])
=============================================================================
