------------------------- MODULE Trace_PositionC11 -------------------------
(* C11: judges pnl events recorded from the real PositionExt::pnl_value.
   Monitors = the property statement; ConformsPnl = agreement with the precise PnlValue (drift).
   CLS lines classify monotonicity failures (is the MaxForTrader cap active at either price?) so that
   the glue can tell the design-level finding established by MC_PositionC11 from anything new. *)
EXTENDS PositionProps, TraceLib
VARIABLE i
Init == i = 0
Next ==
  /\ i < NRec
  /\ i' = i + 1
  /\ LET e == Rec[i'] IN
       /\ Judge(i', << <<"NoPanic", MonNoPanic(e)>>, <<"Monotone", MonMonotone(e)>>,
                       <<"Capped", MonCapped(e)>>, <<"Partial", MonPartial(e)>> >>)
       /\ (MonMonotone(e) \/ Emit("CLS", [i |-> i', cap_active |-> CapActive(e),
                                           unc_monotone |-> MonMonotoneUncapped(e)]))
       /\ Drift(i', ConformsPnl(e), "pnl_value")
Spec == Init /\ [][Next]_i
Done == Emit("DONE", [events |-> TLCGet("stats").diameter - 1])
=============================================================================
