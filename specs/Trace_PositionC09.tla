------------------------- MODULE Trace_PositionC09 -------------------------
(* C09: judges operation events recorded from the real increase / decrease (incl. liquidation flag)
   and the pnl-factor functions around an ADL.  Monitors = the property statement, re-evaluated by
   the precise operators on the logged pre / post states; DriftWhat = first component in which the
   real code differs from the precise Increase / Decrease / LiquidationOrder / AdlOrder (never a
   violation).  STAT lines count the antecedents (vacuity). *)
EXTENDS PositionProps, TraceLib
VARIABLE i
Init == i = 0
Next ==
  /\ i < NRec
  /\ i' = i + 1
  /\ LET e == Rec[i'] IN
       /\ Judge(i', << <<"NoPanic", MonNoPanic(e)>>, <<"IncreaseHealthy", MonIncreaseHealthy(e)>>,
                       <<"DecreaseHealthy", MonDecreaseHealthy(e)>>, <<"Liquidation", MonLiquidation(e)>>,
                       <<"Adl", MonAdl(e)>> >>)
       /\ LET w == DriftWhat(e) IN Drift(i', w = "", e.op \o ":" \o w)
Spec == Init /\ [][Next]_i
Done == Emit("DONE", [events |-> TLCGet("stats").diameter - 1])
=============================================================================
