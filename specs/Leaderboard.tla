---------------------------- MODULE Leaderboard ----------------------------
(* Competition trade callback, transcribed from
     programs/competition/src/instructions/trade_callback.rs   OnExecuted::invoke,
         extend_competition_time, update_leaderboard
     programs/competition/src/states.rs                        Competition, Participant, is_ongoing
   A competition state is a record
     [vol, merged, last : Seq(Int) indexed by trader 1..N   (the Participant accounts),
      board : Seq([a : trader, v : volume]),  end : Int]
   and a configuration c = [start, thr, ext, cap, win : Int, inc : BOOLEAN]
   (start_time, volume_threshold, extension_duration, extension_cap, volume_merge_window,
   only_count_increase).  All values small: the saturating i64/u128 arithmetic of the code never
   saturates in the explored world. *)
EXTENDS Integers, Sequences, FiniteSets

MaxLen == 5                                        \* MAX_LEADERBOARD_LEN

LMax(a, b) == IF a >= b THEN a ELSE b
LMin(a, b) == IF a <= b THEN a ELSE b
SetMax(S)  == CHOOSE x \in S : \A y \in S : y <= x

(* volume of one trade event: only_count_increase ? after -| before : |after - before| *)
TradeVolume(c, before, after) ==
  IF c.inc THEN (IF after >= before THEN after - before ELSE 0)
  ELSE (IF after >= before THEN after - before ELSE before - after)

(* extend_competition_time: end' = max(end, min(end + ext, now + cap)) *)
Extend(c, end, now) == LMax(LMin(end + c.ext, now + c.cap), end)

(* update_leaderboard: remove the trader's first entry, insert behind the LAST entry whose volume is
   >= the new one (ties keep incumbents in front), only if that index is < MaxLen; truncate *)
RemoveFirst(b, t) ==
  LET S == {i \in DOMAIN b : b[i].a = t} IN
  IF S = {} THEN b
  ELSE LET p == CHOOSE i \in S : \A j \in S : i <= j
       IN SubSeq(b, 1, p - 1) \o SubSeq(b, p + 1, Len(b))
InsertPos(b, v) ==                                  \* 0-based insertion index
  LET S == {i \in DOMAIN b : b[i].v >= v} IN IF S = {} THEN 0 ELSE SetMax(S)
UpdateBoard(b, t, v) ==
  LET r == RemoveFirst(b, t)
      p == InsertPos(r, v) IN
  IF p < MaxLen
    THEN LET ins == SubSeq(r, 1, p) \o << [a |-> t, v |-> v] >> \o SubSeq(r, p + 1, Len(r))
         IN SubSeq(ins, 1, LMin(Len(ins), MaxLen))
    ELSE r

Ongoing(c, s, now) == now >= c.start /\ now <= s.end

(* on_executed for trader t at time now; success = order succeeded, hasev = a trade event account
   was passed.  Ignored (state unchanged, instruction Ok): failed order, outside the competition
   time, no trade event, zero volume. *)
Counted(c, s, before, after, now, success, hasev) ==
  success /\ Ongoing(c, s, now) /\ hasev /\ TradeVolume(c, before, after) > 0

Trade(c, s, t, before, after, now, success, hasev) ==
  IF ~Counted(c, s, before, after, now, success, hasev) THEN s
  ELSE
    LET v     == TradeVolume(c, before, after)
        nv    == s.vol[t] + v
        inwin == now - s.last[t] <= c.win
        m1    == IF inwin THEN s.merged[t] + v ELSE v
        trig  == IF inwin THEN m1 >= c.thr ELSE v >= c.thr
    IN [vol    |-> [s.vol EXCEPT ![t] = nv],
        merged |-> [s.merged EXCEPT ![t] = IF trig THEN 0 ELSE m1],
        last   |-> [s.last EXCEPT ![t] = now],
        board  |-> UpdateBoard(s.board, t, nv),
        end    |-> IF trig THEN Extend(c, s.end, now) ELSE s.end]
=============================================================================
