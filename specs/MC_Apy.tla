------------------------------- MODULE MC_Apy -------------------------------
(* Bounded exhaustive laws for C38 (a tiny week, so the literal per-second sum can be evaluated):
   L1  AvgCode = AvgLiteral = AvgDef for every elapsed time 1..TMax (past the last bucket) and every
       gradient of the families spike(i, x, y) = [k |-> IF k = i THEN x ELSE y] and
       step(i, x, y) = [k |-> IF k < i THEN x ELSE y], i in 0..52, x, y in Vals; any start offset;
   L2  the reward is monotone in the stake value and in the integral (all operands in 0..RMax);
   L3  the unstake rule satisfies the monitors for every position / request / vault / policy. *)
EXTENDS ApyProps, TLC
CONSTANTS TMax, Vals, RMax, AMax, VMax
VARIABLE x
Spike(i, a, b) == [k \in 1..Buckets |-> IF k - 1 = i THEN a ELSE b]
StepG(i, a, b) == [k \in 1..Buckets |-> IF k - 1 < i THEN a ELSE b]

(* seeds as initial states, the tuples as their successors (so TLC's workers share the work) *)
Init ==
  \/ \E fam \in {"spike", "step"}, i \in 0..LastIdx : x = [kind |-> "seed_avg", fam |-> fam, i |-> i]
  \/ \E a1 \in 0..RMax, a2 \in 0..RMax : x = [kind |-> "seed_reward", a1 |-> a1, a2 |-> a2]
  \/ \E am \in 1..AMax : x = [kind |-> "seed_unstake", amount |-> am]
AvgCase ==
  /\ x.kind = "seed_avg"
  /\ \E a \in Vals, b \in Vals, T \in 0..TMax, s \in {0, 7} :
       x' = [kind |-> "avg", g |-> IF x.fam = "spike" THEN Spike(x.i, a, b) ELSE StepG(x.i, a, b), T |-> T, s |-> s]
RewardCase ==
  /\ x.kind = "seed_reward"
  /\ \E b \in 0..RMax, c1 \in 0..RMax, c2 \in 0..RMax :
       x' = [kind |-> "reward", a1 |-> x.a1, a2 |-> x.a2, b |-> b, c1 |-> c1, c2 |-> c2]
UnstakeCase ==
  /\ x.kind = "seed_unstake"
  /\ \E v \in 0..VMax, u \in 0..(AMax + 1), claim \in BOOLEAN, mv \in {0, 3}, dust \in {0, 2} :
       x' = [kind |-> "unstake", amount |-> x.amount, value |-> v, u |-> u, claim |-> claim, minv |-> mv,
             vault |-> x.amount + dust]
Next == AvgCase \/ RewardCase \/ UnstakeCase

LAvg ==
  x.kind = "avg" =>
    IF x.T = 0 THEN AvgCode(x.s, x.s, x.g) = x.g[1] /\ AvgCode(x.s + 3, x.s, x.g) = x.g[1]
    ELSE /\ AvgCode(x.s, x.s + x.T, x.g) = AvgLiteral(x.T, x.g)
         /\ AvgDef(x.T, x.g) = AvgLiteral(x.T, x.g)
         /\ MonAvg([op |-> "apy", start |-> x.s, now |-> x.s + x.T, g |-> x.g, v |-> AvgCode(x.s, x.s + x.T, x.g)])
LReward ==
  x.kind = "reward" =>
    LET p == Reward(x.a1, 5, x.b, x.c1)  q == Reward(x.a2, 5, x.b, x.c2) IN
    /\ MonRewardMono([op |-> "reward_pair", ok1 |-> p.ok, ok2 |-> q.ok, a1 |-> x.a1, a2 |-> x.a2,
                      c1 |-> x.c1, c2 |-> x.c2, r1 |-> p.v, r2 |-> q.v])
    /\ ~Reward(x.a1, -1, x.b, x.c1).ok
LUnstake ==
  x.kind = "unstake" =>
    LET r == Unstake([amount |-> x.amount, value |-> x.value], x.claim, x.minv, x.vault, x.u)
        e == [op |-> "unstake", amount |-> x.amount, value |-> x.value, claim |-> x.claim, minv |-> x.minv,
              vault |-> x.vault, u |-> x.u, ok |-> r.ok, full |-> r.full, transfer |-> r.transfer,
              amount2 |-> r.amount, value2 |-> r.value]
    IN /\ MonPartial(e) /\ MonFullSweeps(e) /\ MonAllIsFull(e) /\ MonClaimDisabled(e)
       /\ (x.u = 0 \/ x.u > x.amount => ~r.ok)
       /\ (r.ok /\ ~r.full => r.value >= x.minv /\ r.value <= x.value)
=============================================================================
