SPECIFICATION Spec
CONSTANTS
  Unit = 10
  MaxU = 2147483647
  MaxS = 2147483647
POSTCONDITION Done
CHECK_DEADLOCK FALSE
