---------------------------- MODULE ConfigPolicy ----------------------------
(* Keeper permission policy for market config updates, shaped like the code
   (programs/store/src/instructions/market.rs, states/permissions/market_config.rs, lib.rs).

   State s (one market, one config buffer; keys / flags are the real snake_case names):
     cfg[k]   value of factor key k   (strings: only ever compared for equality)
     flg[f]   BOOLEAN value of flag f
     upd      set of keys and flags currently marked updatable by a MARKET_CONFIG_KEEPER
     buf      [exists, auth, expiry, entries]   entries = sequence of [k, v]
     now      unix time
     rest     digest of every other byte of the market config and permission bits (projection only)
   `roles` is the set of policy-relevant roles the signer holds: "MK" = MARKET_KEEPER,
   "MCK" = MARKET_CONFIG_KEEPER.

   Every operation returns [ok, err, st]; failure cases in the order the program evaluates them:
   Anchor account constraints, then the #[access_control] attribute, then the handler. *)
EXTENDS Integers, Sequences, FiniteSets

MK  == "MK"
MCK == "MCK"

Ok(s)       == [ok |-> TRUE,  err |-> "ok", st |-> s]
Rej(s, err) == [ok |-> FALSE, err |-> err,  st |-> s]

Keys(s)  == DOMAIN s.cfg
Flags(s) == DOMAIN s.flg
NoBuf    == [exists |-> FALSE, auth |-> "none", expiry |-> 0, entries |-> <<>>]

(* ensure_can_update_market_config: MARKET_KEEPER or MARKET_CONFIG_KEEPER *)
CanUpdate(roles) == roles \cap {MK, MCK} # {}

(* update_market_config(key, value) *)
Update(s, roles, k, v) ==
  IF ~CanUpdate(roles) THEN Rej(s, "PermissionDenied")
  ELSE IF k \notin Keys(s) THEN Rej(s, "InvalidMarketConfigKey")
  ELSE IF k \notin s.upd /\ MK \notin roles THEN Rej(s, "PermissionDenied")
  ELSE Ok([s EXCEPT !.cfg[k] = v])

(* update_market_config_flag(key, value) *)
UpdateFlag(s, roles, f, v) ==
  IF ~CanUpdate(roles) THEN Rej(s, "PermissionDenied")
  ELSE IF f \notin Flags(s) THEN Rej(s, "InvalidMarketConfigKey")
  ELSE IF f \notin s.upd /\ MK \notin roles THEN Rej(s, "PermissionDenied")
  ELSE Ok([s EXCEPT !.flg[f] = v])

(* set_market_config_updatable(is_flag, key, updatable): MARKET_KEEPER only; must change the bit *)
SetUpdatable(s, roles, isFlag, k, u) ==
  IF MK \notin roles THEN Rej(s, "PermissionDenied")
  ELSE IF k \notin (IF isFlag THEN Flags(s) ELSE Keys(s)) THEN Rej(s, "InvalidMarketConfigKey")
  ELSE IF (k \in s.upd) = u THEN Rej(s, "PreconditionsAreNotMet")
  ELSE Ok([s EXCEPT !.upd = IF u THEN @ \cup {k} ELSE @ \ {k}])

(* initialize_market_config_buffer(expire_after_secs): open to anyone; the signer becomes authority *)
InitBuffer(s, signer, exp) ==
  IF s.buf.exists THEN Rej(s, "Custom(0)")
  ELSE Ok([s EXCEPT !.buf = [exists |-> TRUE, auth |-> signer, expiry |-> s.now + exp, entries |-> <<>>]])

(* push_to_market_config_buffer(entries): buffer authority only *)
PushBuffer(s, signer, es) ==
  IF ~s.buf.exists THEN Rej(s, "AccountNotInitialized")
  ELSE IF s.buf.auth # signer THEN Rej(s, "PermissionDenied")
  ELSE IF \E i \in DOMAIN es : es[i].k \notin Keys(s) THEN Rej(s, "InvalidMarketConfigKey")
  ELSE Ok([s EXCEPT !.buf.entries = @ \o es])

(* set_market_config_buffer_authority(new) *)
SetBufferAuth(s, signer, new) ==
  IF ~s.buf.exists THEN Rej(s, "AccountNotInitialized")
  ELSE IF s.buf.auth # signer THEN Rej(s, "PermissionDenied")
  ELSE Ok([s EXCEPT !.buf.auth = new])

(* close_market_config_buffer *)
CloseBuffer(s, signer) ==
  IF ~s.buf.exists THEN Rej(s, "AccountNotInitialized")
  ELSE IF s.buf.auth # signer THEN Rej(s, "PermissionDenied")
  ELSE Ok([s EXCEPT !.buf = NoBuf])

(* entries are applied in order: the last entry of a key wins *)
ApplyEntries(cfg, es) ==
  [k \in DOMAIN cfg |->
     LET idx == {i \in DOMAIN es : es[i].k = k} IN
     IF idx = {} THEN cfg[k] ELSE es[CHOOSE i \in idx : \A j \in idx : j <= i].v]

(* update_market_config_with_buffer *)
WithBuffer(s, signer, roles) ==
  IF ~s.buf.exists THEN Rej(s, "AccountNotInitialized")
  ELSE IF s.buf.auth # signer THEN Rej(s, "PermissionDenied")            \* has_one = authority
  ELSE IF ~CanUpdate(roles) THEN Rej(s, "PermissionDenied")             \* access_control
  ELSE IF ~(s.buf.expiry > s.now) THEN Rej(s, "InvalidArgument")        \* strictly in the future
  ELSE IF MK \notin roles /\ \E i \in DOMAIN s.buf.entries : s.buf.entries[i].k \notin s.upd
       THEN Rej(s, "PermissionDenied")                                  \* one entry rejects all
  ELSE Ok([s EXCEPT !.cfg = ApplyEntries(@, s.buf.entries)])

Tick(s, dt) == Ok([s EXCEPT !.now = @ + dt])

(* a = [op, s, k, v, b, flag, es, n]: s signer, k key/flag/new authority, v value string,
   b BOOLEAN argument (flag value / updatable), flag = is_flag, es entries, n seconds *)
Apply(s, roles, a) ==
  CASE a.op = "update"        -> Update(s, roles, a.k, a.v)
    [] a.op = "update_flag"   -> UpdateFlag(s, roles, a.k, a.b)
    [] a.op = "set_updatable" -> SetUpdatable(s, roles, a.flag, a.k, a.b)
    [] a.op = "init_buffer"   -> InitBuffer(s, a.s, a.n)
    [] a.op = "push_buffer"   -> PushBuffer(s, a.s, a.es)
    [] a.op = "set_buffer_auth" -> SetBufferAuth(s, a.s, a.k)
    [] a.op = "close_buffer"  -> CloseBuffer(s, a.s)
    [] a.op = "with_buffer"   -> WithBuffer(s, a.s, roles)
    [] a.op = "tick"          -> Tick(s, a.n)
=============================================================================
