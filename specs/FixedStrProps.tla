--------------------------- MODULE FixedStrProps ---------------------------
(* C35 monitors.  An event is one name pushed through one real creation path and read back:
     tgt      : which field ("utils3", "utils32", "utils64", "token_config", "store_key", "role",
                "role_metadata", "market", "executor")
     n        : field size in bytes;  name : the UTF-8 bytes of the input
     accepted : creation returned Ok
     read_ok, back : the getter returned Ok and these bytes (only meaningful when accepted)
     usable   : (roles) enable_role -> grant -> has_role = true -> disable_role all succeeded
     panic *)
EXTENDS FixedStr

MonNoPanic(e) == ~e.panic

(* accepted => read back unchanged (equivalently: what cannot be read back is rejected at creation) *)
MonReadBack(e) == (e.accepted /\ ~e.panic) => (e.read_ok /\ e.back = e.name)

(* an accepted role can be used, granted and disabled *)
MonUsable(e) == (e.tgt = "role" /\ e.accepted /\ ~e.panic) => e.usable

(* the code as transcribed: accepts by length only, reads up to the first NUL *)
Conforms(e) ==
  /\ ~e.panic
  /\ e.accepted = ToBytes(e.name, e.n).ok
  /\ e.accepted => LET r == FromBytes(ToBytes(e.name, e.n).bytes) IN
                   /\ e.read_ok = r.ok
                   /\ e.read_ok => e.back = r.s
=============================================================================
