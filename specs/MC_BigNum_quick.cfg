INIT Init
NEXT Next
CONSTANTS
  BBase = 3
  BW = 3
INVARIANTS LRoundTrip LCmp LAdd LMin
CHECK_DEADLOCK FALSE
