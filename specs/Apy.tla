-------------------------------- MODULE Apy --------------------------------
(* LP staking rewards and unstaking, transcribed from programs/liquidity-provider/src/lib.rs
     compute_time_weighted_apy, calculate_gt_reward_amount, unstake_lp (step 2: apply unstake amount).
   A gradient g is a sequence of 53 weekly APY values (bucket k = g[k+1], k = 0..52); Week is the
   number of seconds per week (604800 in the program; the bounded model also uses a tiny week to
   compare with the literal per-second sum).  The program's u128 arithmetic is saturating/checked;
   in the explored world nothing saturates. *)
EXTENDS Integers, Sequences
CONSTANT Week

Buckets == 53
LastIdx == 52
AMin(a, b) == IF a <= b THEN a ELSE b
G(g, k) == g[AMin(k, LastIdx) + 1]            \* weeks past the last bucket use the last one

RECURSIVE PrefixSum(_, _)
PrefixSum(g, n) == IF n <= 0 THEN 0 ELSE PrefixSum(g, n - 1) + g[n]    \* g[1] + .. + g[n]

(* --- the program, step by step *)
AvgCode(start, now, g) ==
  IF now <= start THEN g[1]
  ELSE LET T      == now - start
           full   == T \div Week
           rem    == T % Week
           capped == AMin(full, LastIdx)
           acc1   == PrefixSum(g, capped) * Week
           acc2   == IF full > LastIdx THEN acc1 + g[LastIdx + 1] * (Week * (full - LastIdx)) ELSE acc1
           acc3   == IF rem > 0 THEN acc2 + G(g, capped) * rem ELSE acc2
       IN acc3 \div T

(* --- the statement: average over each elapsed second s in 0..T-1 of the bucket of that second.
   Literal form (only evaluable for a tiny Week) and the same sum grouped by week: week k holds
   min(T, (k+1)*Week) - k*Week of the elapsed seconds, for k = 0 .. (T-1) div Week. *)
RECURSIVE SecSum(_, _)
SecSum(g, s) == IF s < 0 THEN 0 ELSE SecSum(g, s - 1) + G(g, s \div Week)
AvgLiteral(T, g) == SecSum(g, T - 1) \div T

SecondsInWeek(T, k) == AMin(T, (k + 1) * Week) - k * Week
RECURSIVE WeekSum(_, _, _)
WeekSum(T, g, k) == IF k < 0 THEN 0 ELSE WeekSum(T, g, k - 1) + G(g, k) * SecondsInWeek(T, k)
AvgDef(T, g) == WeekSum(T, g, (T - 1) \div Week) \div T

(* --- calculate_gt_reward_amount: two apply_factor steps (floor of x * f / 10^20 each).  The trace
   logs operands scaled so that the divisions become divisions by U (= 10): value = a * 10^9,
   apy_per_sec = b * 10^10, integral = c * 10^19, hence
   floor(value * aps / 10^20) = floor(a * b / 10) and floor(p * integral / 10^20) = floor(p * c / 10). *)
U == 10
Reward(a, d, b, c) ==
  IF d < 0 THEN [ok |-> FALSE, v |-> 0]
  ELSE [ok |-> TRUE, v |-> (((a * b) \div U) * c) \div U]

(* --- unstake_lp after the claim-like reward step.  p = [amount, value] the position, vault = token
   balance of the position vault (>= amount; dust possible), u = requested amount *)
Unstake(p, claimEnabled, minValue, vault, u) ==
  LET bad == [ok |-> FALSE, full |-> FALSE, transfer |-> 0, amount |-> p.amount, value |-> p.value] IN
  IF u <= 0 \/ u > p.amount THEN bad
  ELSE IF ~claimEnabled /\ u # p.amount THEN bad
  ELSE LET rem  == p.amount - u
           nv   == IF rem = 0 THEN 0 ELSE (p.value * rem) \div p.amount
           full == rem = 0 \/ nv < minValue
       IN [ok |-> TRUE, full |-> full, transfer |-> IF full THEN vault ELSE u,
           amount |-> IF full THEN 0 ELSE rem, value |-> IF full THEN 0 ELSE nv]
=============================================================================
