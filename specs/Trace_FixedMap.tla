--------------------------- MODULE Trace_FixedMap ---------------------------
(* Every event carries the real map's entries before and after the operation, so events are judged
   independently (the replay walks a prefix trie with snapshots, the trace is not one linear run). *)
EXTENDS FixedMapProps, TraceLib
VARIABLE i
Init == i = 0
Next ==
  /\ i < NRec
  /\ i' = i + 1
  /\ LET e == Rec[i'] IN
       /\ Judge(i', << <<"NoPanic", MonNoPanic(e)>>, <<"Sorted", MonSorted(e)>>,
                       <<"Ref", MonRef(e)>>, <<"Full", MonFull(e)>> >>)
       /\ Drift(i', Conforms(e), e.op)
Spec == Init /\ [][Next]_i
Done == Emit("DONE", [events |-> TLCGet("stats").diameter - 1])
=============================================================================
