---------------------------- MODULE MarketProps ----------------------------
(* C04, C05, C06: the listed properties as monitors over one recorded operation of the market
   (and, for the round trip, over a deposit and the withdrawal that immediately follows it).
   An event e is a record
     reset, rt : BOOLEAN        rt: this withdrawal returns exactly what the previous event (a
                                deposit at the same prices) minted, nothing in between
     op        : "swap" | "deposit" | "withdraw"
     side      : swap: the input token is the long token
     a, b      : swap: a = amount in; deposit: a / b = long / short token amount; withdraw: a = market tokens
     pr, c     : prices [idx, long, short] of [min, max]; configuration (see Market.tla)
     ok, panic : the call returned Ok / panicked (then ok = FALSE)
     out, out2 : swap: token_out_amount; deposit: minted; withdraw: long / short token output
     impact, impactAmt           reported price impact value / amount
     fpl, frl, fps, frs          reported fees for pool / receiver, long and short token (swap: the
                                 input token's fees are in fpl / frl)
     pre, post : the market state before / after (post also on failure)
     pvPre, pvPost               pool value the code computes before / after (conformance only)
   The monitors say nothing about rounding of amounts the statements only bound, about other
   pools, or about error codes: those live in the precise actions (conformance = drift only). *)
EXTENDS Market

Held(st, isLong) == Amt(st.liq, isLong) + Amt(st.imp, isLong) + Amt(st.fee, isLong)
IsSwap(e)     == e.op = "swap"
IsDeposit(e)  == e.op = "deposit"
IsWithdraw(e) == e.op = "withdraw"
Pin(e)  == TokenPrice(e.pr, e.side)
Pout(e) == TokenPrice(e.pr, ~e.side)

-----------------------------------------------------------------------------
(* C04: a successful swap increases the holdings of the input token (liquidity + swap impact +
   claimable fees) by exactly the input amount and decreases the holdings of the output token by
   exactly the amount paid out; a failed swap leaves every pool unchanged. *)
C04In(e)  == (IsSwap(e) /\ e.ok) => Held(e.post, e.side) - Held(e.pre, e.side) = e.a
C04Out(e) == (IsSwap(e) /\ e.ok) => Held(e.pre, ~e.side) - Held(e.post, ~e.side) = e.out
C04Atomic(e) == (IsSwap(e) /\ ~e.ok) => e.post = e.pre

-----------------------------------------------------------------------------
(* C05: value out at the max output price never exceeds value in at the min input price plus the
   positive impact actually funded by the two swap impact pools (read from the pool deltas);
   with zero fees and zero impact the output is the input converted at the least favourable
   prices, rounded down. *)
ImpLost(e, isLong) == Max(0, Amt(e.pre.imp, isLong) - Amt(e.post.imp, isLong))
C05Value(e) ==
  (IsSwap(e) /\ e.ok) =>
    e.out * Pout(e).max <= e.a * Pin(e).min + ImpLost(e, ~e.side) * Pout(e).max + ImpLost(e, e.side) * Pin(e).min
(* "the positive price impact actually funded by the swap-impact pools": what the two pools lose in
   a swap is (part of) that swap's positive price impact, so its value never exceeds the impact the
   swap reports (each conversion of the impact value into tokens rounds down; exact on the design:
   a * Pout.max <= impact, capped part c * Pin.min <= capped difference) *)
C05Funded(e) ==
  (IsSwap(e) /\ e.ok) =>
    ImpLost(e, ~e.side) * Pout(e).max + ImpLost(e, e.side) * Pin(e).min <= Max(0, e.impact)
ZeroFeesAndImpact(c) == c.feePos = 0 /\ c.feeNeg = 0 /\ c.impPos = 0 /\ c.impNeg = 0
C05Exact(e) ==
  (IsSwap(e) /\ e.ok /\ ZeroFeesAndImpact(e.c)) => e.out = (e.a * Pin(e).min) \div Pout(e).max

-----------------------------------------------------------------------------
(* C06 (a): deposit, then immediately withdraw everything minted at the same prices: the value
   returned (both tokens, at max prices) never exceeds the value deposited (at min prices). *)
IsRoundTrip(d, w) ==
  /\ w.rt /\ IsDeposit(d) /\ d.ok /\ IsWithdraw(w) /\ w.ok
  /\ w.a = d.out /\ w.pr = d.pr /\ w.pre = d.post
C06RoundTrip(d, w) ==
  IsRoundTrip(d, w) =>
    w.out * w.pr.long.max + w.out2 * w.pr.short.max <= d.a * d.pr.long.min + d.b * d.pr.short.min
(* the same, allowing for the positive price impact the deposit was paid out of the swap impact
   pools (tokens that were not the depositor's and not the other LPs'): what the design guarantees.
   Not the listed statement (which has no such allowance) — used to calibrate the model and to
   separate "round trip gains exactly the funded impact" from anything worse. *)
RtBonus(d) == ImpLost(d, TRUE) * d.pr.long.max + ImpLost(d, FALSE) * d.pr.short.max
(* pool value that belongs to nobody: value left in a pool without supply (e.g. the pool's share
   of the fees of the last withdrawal) goes to the next depositor, usd_to_market_token_amount's
   second branch *)
Orphaned(d) ==
  IF d.pre.supply # 0 THEN 0
  ELSE LET v == PoolValue(d.pre, d.c, d.pr, "deposit", TRUE) IN IF v.ok /\ v.v > 0 THEN v.v ELSE 0
C06RoundTripFunded(d, w) ==
  IsRoundTrip(d, w) =>
    w.out * w.pr.long.max + w.out2 * w.pr.short.max
      <= d.a * d.pr.long.min + d.b * d.pr.short.min + RtBonus(d) + Orphaned(d)

(* C06 (b): neither leg lowers the value of one market token for the other LPs.  V / S before vs
   V' / S' after, cross-multiplied; V is the pool value as the leg itself values the pool
   (deposit: maximised, withdrawal: minimised).  There are other LPs only when S > 0.
   "Beyond integer rounding", made exact: minting and paying out round down (in the other LPs'
   favour, no allowance needed).  The one rounding that can go against them is the pnl factor: a
   deposit is admitted while floor(Unit * pnl / pool side) <= max factor, so the traders' pnl may
   exceed the cap floor(pool side * max factor / Unit) by less than pool side / Unit + 1; the
   deposit raises the cap and up to that excess becomes a liability of the pool.  CapRound is that
   excess where it exists, bounded by the rounding bound, and zero otherwise. *)
CapRound(st, c, pr, kind, maximize, isLong) ==
  LET L   == SideValue(st, pr, isLong, maximize)
      pnl == Pnl(st, pr.idx, isLong, ~maximize)
      cap == ApplyFactor(L, KindFactor(c, kind))
  IN IF cap.ok /\ pnl > cap.v THEN Min(pnl - cap.v, SideValue(st, pr, isLong, FALSE) \div Unit + 1) ELSE 0
C06DepositShare(e) ==
  (IsDeposit(e) /\ e.ok /\ e.pre.supply > 0) =>
    LET v0 == PoolValue(e.pre, e.c, e.pr, "deposit", TRUE)
        v1 == PoolValue(e.post, e.c, e.pr, "deposit", TRUE)
        r  == CapRound(e.pre, e.c, e.pr, "deposit", TRUE, TRUE) + CapRound(e.pre, e.c, e.pr, "deposit", TRUE, FALSE)
    IN (v0.ok /\ v1.ok /\ v0.v >= 0) => (v1.v + r) * e.pre.supply >= v0.v * e.post.supply
C06WithdrawShare(e) ==
  (IsWithdraw(e) /\ e.ok) =>
    LET v0 == PoolValue(e.pre, e.c, e.pr, "withdrawal", FALSE)
        v1 == PoolValue(e.post, e.c, e.pr, "withdrawal", FALSE)
    IN (v0.ok /\ v1.ok) => v1.v * e.pre.supply >= v0.v * e.post.supply

(* C06 (c): the first deposit into an empty pool (no supply, no value) is priced at one USD per
   market token: minted = usd / divisor where usd is the deposited value at min prices after fees
   and impact; each side is converted separately, so up to divisor - 1 is lost per side. *)
IsFirstDeposit(e) ==
  /\ IsDeposit(e) /\ e.ok /\ e.pre.supply = 0
  /\ LET v0 == PoolValue(e.pre, e.c, e.pr, "deposit", TRUE) IN v0.ok /\ v0.v = 0
NetDeposited(e, isLong) ==
  (IF isLong THEN e.a - e.fpl - e.frl ELSE e.b - e.fps - e.frs)
    - (Amt(e.post.imp, isLong) - Amt(e.pre.imp, isLong))
C06First(e) ==
  IsFirstDeposit(e) =>
    LET usd == NetDeposited(e, TRUE) * e.pr.long.min + NetDeposited(e, FALSE) * e.pr.short.min
        k   == (IF e.a > 0 THEN 1 ELSE 0) + (IF e.b > 0 THEN 1 ELSE 0)
    IN e.out * e.c.div <= usd /\ usd <= e.out * e.c.div + k * (e.c.div - 1)

-----------------------------------------------------------------------------
(* Conformance with the precise actions (drift only, never a verdict). *)
PvKind(e) == IF IsWithdraw(e) THEN "withdrawal" ELSE "deposit"
PvConforms(e) ==
  /\ e.pvPre = PoolValue(e.pre, e.c, e.pr, PvKind(e), ~IsWithdraw(e))
  /\ e.pvPost = PoolValue(e.post, e.c, e.pr, PvKind(e), ~IsWithdraw(e))
Conforms(e) ==
  /\ ~e.panic
  /\ PvConforms(e)
  /\ CASE IsSwap(e) ->
            LET r == Swap(e.pre, e.c, e.side, e.a, e.pr)
            IN /\ r.ok = e.ok /\ r.m = e.post
               /\ e.ok => /\ r.out = e.out /\ r.impact = e.impact /\ r.impactAmt = e.impactAmt
                          /\ r.feePool = e.fpl /\ r.feeRecv = e.frl
       [] IsDeposit(e) ->
            LET r == Deposit(e.pre, e.c, e.a, e.b, e.pr)
            IN /\ r.ok = e.ok /\ r.m = e.post
               /\ e.ok => /\ r.minted = e.out /\ r.impact = e.impact
                          /\ r.feesL.pool = e.fpl /\ r.feesL.recv = e.frl
                          /\ r.feesS.pool = e.fps /\ r.feesS.recv = e.frs
       [] IsWithdraw(e) ->
            LET r == Withdraw(e.pre, e.c, e.a, e.pr)
            IN /\ r.ok = e.ok /\ r.m = e.post
               /\ e.ok => /\ r.longOut = e.out /\ r.shortOut = e.out2
                          /\ r.feesL.pool = e.fpl /\ r.feesL.recv = e.frl
                          /\ r.feesS.pool = e.fps /\ r.feesS.recv = e.frs
       [] OTHER -> FALSE
=============================================================================
