SPECIFICATION Spec
CONSTANTS
  Depth = 2
INVARIANTS IReadBack IFrame IRejected IParam IConf ITables IDefault IIsolation ISides
CHECK_DEADLOCK FALSE
