------------------------ MODULE ActionLifecycleProps ------------------------
(* C23: "Every deposit, withdrawal, shift, order and GLV action moves from pending to completed or
   cancelled exactly once and never leaves a terminal state.  A pending action can be closed only by
   its owner, who gets back every escrowed token and the unused execution fee.  A keeper may close
   only terminal actions, and a failed execution cancels the action and returns its escrow without
   touching any market."

   Monitors over one step: p = state before, o = the attempted operation [op, a, by, ...], ok =
   whether the instruction succeeded, q = state after (both projected from the accounts), and three
   observations of the rest of the world: mktSame (the economic state of EVERY market account is
   unchanged), vaultSame (every market vault holds the same amount), worldSame (the whole account
   database is unchanged).  Nothing here is stronger than the statement; what the code does beyond it
   (who pays which lamports when, that other actions are untouched) is `Conforms`. *)
EXTENDS ActionLifecycle

(* pending -> (completed | cancelled) -> closed, every step at most once, nothing ever goes back *)
NextStates(x) ==
  CASE x = "none"      -> {"none", "pending"}
    [] x = "pending"   -> {"pending", "completed", "cancelled", "closed"}
    [] x = "completed" -> {"completed", "closed"}
    [] x = "cancelled" -> {"cancelled", "closed"}
    [] x = "closed"    -> {"closed"}
MonLifecycle(p, q) == \A a \in ActionsOf(p) : q.st[a] \in NextStates(p.st[a])

(* an action disappears only through a successful close of that action, by its owner - or by a
   keeper when it is completed or cancelled *)
MonCloseAuth(p, o, ok, q) ==
  \A a \in ActionsOf(p) :
    (p.st[a] # "closed" /\ q.st[a] = "closed") =>
      /\ ok /\ o.op = "close" /\ o.a = a
      /\ \/ o.by = "owner"
         \/ o.by = "keeper" /\ Terminal(p.st[a])

(* closing a PENDING action: only the owner, who gets back every escrowed token and - the action
   never having been executed - every lamport he put in (rent and the whole execution fee) *)
MonPendingClose(p, o, q) ==
  \A a \in ActionsOf(p) :
    (p.st[a] = "pending" /\ q.st[a] = "closed") =>
      /\ o.by = "owner"
      /\ q.own[a] = p.own[a] + p.esc[a] /\ q.esc[a] = 0
      /\ q.own[a] = 0                                   \* all input tokens are home again
      /\ q.ownLam[a] = p.ownLam[a] + p.lam[a] /\ q.lam[a] = 0
      /\ q.ownLam[a] = 0                                \* the owner is made whole

(* whoever closes, in whatever state: everything in the escrows goes home to the owner *)
MonEscrowHome(p, q) ==
  \A a \in ActionsOf(p) :
    (p.st[a] # "closed" /\ q.st[a] = "closed") =>
      /\ q.own[a] = p.own[a] + p.esc[a]
      /\ q.ownOut[a] = p.ownOut[a] + p.out[a]
      /\ q.ownOut2[a] = p.ownOut2[a] + p.out2[a]
      /\ q.esc[a] = 0 /\ q.out[a] = 0 /\ q.out2[a] = 0
      /\ q.ownLam[a] = p.ownLam[a] + p.lam[a]

(* state changes of the account happen only in a successful execution by a keeper *)
MonExecAuth(p, o, ok, q) ==
  \A a \in ActionsOf(p) :
    (p.st[a] = "pending" /\ Terminal(q.st[a])) =>
      ok /\ o.op = "execute" /\ o.a = a /\ o.by = "keeper"

(* a failed (soft) execution cancels the action, puts the escrow back and touches no market *)
MonSoftFail(p, q, mktSame, vaultSame) ==
  \A a \in ActionsOf(p) :
    (p.st[a] = "pending" /\ q.st[a] = "cancelled") =>
      /\ q.esc[a] = p.esc[a] /\ q.own[a] = p.own[a]
      /\ q.out[a] = p.out[a] /\ q.out2[a] = p.out2[a]
      /\ mktSame /\ vaultSame

(* a successful instruction that executes a pending action either completes or cancels it *)
MonExecOutcome(p, o, ok, q) ==
  (ok /\ o.op = "execute" /\ p.st[o.a] = "pending") => Terminal(q.st[o.a])

(* "exactly once": only a PENDING action can be executed - a successful execution of an action that
   is already completed or cancelled would complete / cancel it a second time *)
MonExecOnce(p, o, ok) ==
  (ok /\ o.op = "execute" /\ o.a \in ActionsOf(p)) => p.st[o.a] = "pending"

(* a terminal action that stays open keeps what it holds for its owner: the lamports (unused
   execution fee, rent) and the escrowed tokens are not reduced by anything but its close *)
MonTerminalKept(p, q) ==
  \A a \in ActionsOf(p) :
    (Terminal(p.st[a]) /\ q.st[a] = p.st[a]) =>
      /\ q.lam[a] >= p.lam[a]
      /\ q.esc[a] >= p.esc[a] /\ q.out[a] >= p.out[a] /\ q.out2[a] >= p.out2[a]

(* a terminal action can be closed: a close attempted by its owner or by a keeper (with the right
   accounts) does not fail, so what it holds is never locked in *)
MonTerminalClosable(p, o, ok) ==
  (o.op = "close" /\ o.a \in ActionsOf(p) /\ Terminal(p.st[o.a]) /\ o.by \in {"owner", "keeper"}) => ok

(* ActionState::completed / cancelled called on a terminal state must fail *)
MonDirectTerminal(from, ok) == Terminal(from) => ~ok

(* hard failure: the whole instruction is rolled back *)
MonHardFail(ok, p, q, worldSame) == ~ok => (worldSame /\ q = p)

(* precise specification vs code; the amounts an execution pays out are not specified here *)
OutFree(o, r) == o.op = "execute" /\ r.ok /\ r.st.st[o.a] = "completed"
Erase(s, a) == [s EXCEPT !.out[a] = 0, !.out2[a] = 0]
Conforms(p, o, P, ok, q) ==
  LET r == Apply(p, o, P) IN
    /\ r.ok = ok
    /\ IF OutFree(o, r)
       THEN /\ Erase(r.st, o.a) = Erase(q, o.a)
            /\ q.out[o.a] >= 0 /\ q.out2[o.a] >= 0 /\ q.out[o.a] + q.out2[o.a] > 0
       ELSE r.st = q
=============================================================================
