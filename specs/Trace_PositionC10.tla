------------------------- MODULE Trace_PositionC10 -------------------------
(* C10: judges open / immediate-full-close round trips recorded from the real increase / decrease.
   RoundTrip = the property statement on the pair (open, close).  CLS lines classify failures by
   whether the configuration respects the governance convention on the impact caps (established by
   MC_PositionC10: only configurations outside it admit a profit).  RT lines carry the profit of every
   completed round trip (evidence / vacuity); DES lines carry, for every failing round trip, the profit the
   precise specification yields for the same input (a known design-level profit vs one made worse). *)
EXTENDS PositionProps, TraceLib
VARIABLE i
Init == i = 0
Next ==
  /\ i < NRec
  /\ i' = i + 1
  /\ LET e == Rec[i'] IN
       /\ Judge(i', << <<"NoPanic", MonNoPanic(e)>>,
                       <<"RoundTrip", (i' > 1 /\ ~e.reset /\ e.rt) => MonRoundTrip(Rec[i' - 1], e)>> >>)
       /\ (~(i' > 1 /\ ~e.reset /\ e.rt /\ IsRoundTrip(Rec[i' - 1], e))
             \/ Emit("RT", [i |-> i', profit |-> RoundTripProfit(Rec[i' - 1], e), tol |-> RoundTripTol(Rec[i' - 1]),
                            conv |-> CapConvention(e.pre.m.c)]))
       /\ (~(i' > 1 /\ ~e.reset /\ e.rt) \/ MonRoundTrip(Rec[i' - 1], e)
             \/ Emit("DES", [i |-> i', design |-> DesignRoundTrip(Rec[i' - 1], e)]))
       /\ LET w == DriftWhat(e) IN Drift(i', w = "", e.op \o ":" \o w)
Spec == Init /\ [][Next]_i
Done == Emit("DONE", [events |-> TLCGet("stats").diameter - 1])
=============================================================================
