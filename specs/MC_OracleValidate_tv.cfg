INIT Init
NEXT Next
CONSTANTS
  FUnit = 100
  Now = 6
  PMaxV = 5
  Devs = {0, 10, 50, 100}
  Kind = "tv"
  Small = FALSE
INVARIANTS InvTime InvPriceBatch InvAdjust InvAdjustOrdered InvWith
CHECK_DEADLOCK FALSE
