--------------------------- MODULE MC_DecimalConv ---------------------------
(* Bounded exhaustive model for C43 on the scaled-down world (see DecimalConv): every unsigned and
   signed integer of the scaled-down types with every decimals value 0..MaxD, and every scaled-down
   Decimal with every target decimals.  The invariants are the laws the conversions satisfy, and --
   because the DESIGN itself does not satisfy the listed property everywhere -- the exact
   characterisation of where the monitors of DecimalConvProps fail on the design (these are the
   classes the python glue matches against known_findings.json):
     trunc   x > MaxRepr and the dropped digits are not all zero      (ToExact, RoundTrip)
     panic   x > MaxRepr and decimals - dropped > MaxScale             (NoPanic)
     amount  decimals > MaxScale and digits are dropped                (ToExact)
     above   an unsigned x > MaxI: the way back goes through the signed type  (RoundTrip)
     round   a Decimal with more fractional digits than the target     (FromExact)
     fmt     the error path formats a Decimal whose scale rescale() pushed above MaxScale (NoPanic) *)
EXTENDS DecimalConvProps
CONSTANTS MaxD, Full
VARIABLES kind, x, d, m, s
vars == <<kind, x, d, m, s>>

(* quick tier: the neighbourhoods of every boundary instead of the whole unsigned range *)
XS == IF Full THEN 0..MaxU
      ELSE (0..(MaxRepr + 80)) \cup ((MaxI - 60)..(MaxI + 120)) \cup (9950..10060) \cup ((MaxU - 60)..MaxU)
Init == \/ /\ kind \in {"ufixed", "sfixed"} /\ x \in XS /\ d \in 0..MaxD /\ m = 0 /\ s = 0
        \/ /\ kind \in {"uamount", "samount"} /\ x \in 0..AmtMax /\ d \in 0..MaxD /\ m = 0 /\ s = 0
        \/ /\ kind = "from" /\ x = 0 /\ d \in 0..MaxD /\ m \in 0..MaxRepr /\ s \in 0..MaxScale
Next == UNCHANGED vars

Str(n) == ToString(n)
InI(n) == kind \in {"ufixed", "uamount"} \/ n <= MaxI
(* the abstract event the specification produces for (kind, x, d) *)
ToEv(op, neg) ==
  LET n  == IF neg THEN -x ELSE x
      r  == CASE op = "ufixed" -> UnsignedFixedToDec(x, d) [] op = "sfixed" -> SignedFixedToDec(n, d)
              [] op = "uamount" -> UnsignedAmountToDec(x, d) [] op = "samount" -> SignedAmountToDec(n, d)
      b  == CASE op = "ufixed" -> DecToValue(r.dec, d) [] op = "uamount" -> DecToAmount(r.dec, d)
              [] OTHER -> DecToSigned(r.dec, d) IN
  [dir |-> "to", op |-> op, x |-> Str(x), neg |-> neg, d |-> d, st |-> r.st,
   m |-> Str(r.dec.m), s |-> r.dec.s, dneg |-> r.dec.neg,
   bst |-> IF r.st # "some" THEN "skip" ELSE IF b.ok THEN "ok" ELSE IF b.panic THEN "panic" ELSE "err",
   back |-> Str(Abs(b.v)), bneg |-> b.v < 0]
FromEv(op, neg) ==
  LET dec == Dec(neg, m, s)
      b == CASE op = "from_value" -> DecToValue(dec, d) [] op = "from_amount" -> DecToAmount(dec, d)
             [] OTHER -> DecToSigned(dec, d) IN
  [dir |-> "from", op |-> op, x |-> "0", neg |-> FALSE, d |-> d, st |-> "some",
   m |-> Str(m), s |-> s, dneg |-> neg, bst |-> IF b.ok THEN "ok" ELSE IF b.panic THEN "panic" ELSE "err",
   back |-> Str(Abs(b.v)), bneg |-> b.v < 0]

Diff     == ILog10(x) - TargetScale
Trunc    == x > MaxRepr /\ x % Pow10(Diff) # 0
PanicCls == x > MaxRepr /\ d >= Diff /\ d - Diff > MaxScale
AboveI   == kind = "ufixed" /\ x > MaxI
AmtCls   == d > MaxScale /\ (IF d - MaxScale > AmtScale THEN x # 0 ELSE x % Pow10(d - MaxScale) # 0)

Signs == IF kind \in {"sfixed", "samount"} /\ x <= MaxI THEN {FALSE, TRUE} ELSE {FALSE}

LFixed ==
  kind \in {"ufixed", "sfixed"} /\ (kind = "sfixed" => x <= MaxI + 1) =>
    \A neg \in (IF kind = "sfixed" THEN {FALSE, TRUE} ELSE {FALSE}) :
      (kind = "sfixed" /\ ~neg => x <= MaxI) =>
      LET e == ToEv(kind, neg /\ x # 0) IN
      (* the listed property holds on the design exactly outside the two classes *)
      /\ MonNoPanic(e) <=> ~PanicCls
      /\ MonToExact(e) <=> ~(Trunc /\ e.st = "some")
      /\ (~Trunc /\ ~PanicCls /\ ~AboveI) => MonRoundTrip(e)
      /\ (AboveI /\ e.st = "some" /\ d <= MaxScale) => ~MonRoundTrip(e)
      /\ (Trunc /\ e.st = "some" /\ d <= MaxScale /\ e.bst = "ok") => ~MonRoundTrip(e)
      (* None exactly when the value has no Decimal of the requested decimals at all *)
      /\ e.st = "none" <=> (IF x > MaxRepr THEN d < Diff ELSE d > MaxScale)
      (* what the truncation does: the digits below 10^Diff are dropped *)
      /\ (x > MaxRepr /\ e.st = "some" /\ e.bst = "ok") => e.back = Str(x - (x % Pow10(Diff)))
LAmount ==
  kind \in {"uamount", "samount"} =>
    \A neg \in (IF kind = "samount" THEN {FALSE, TRUE} ELSE {FALSE}) :
      LET e == ToEv(kind, neg /\ x # 0) IN
      /\ MonNoPanic(e)
      /\ e.st = "some"
      /\ MonToExact(e) <=> ~AmtCls
      /\ MonRoundTrip(e)                       \* for decimals <= MaxScale; vacuous above
LFrom ==
  kind = "from" =>
    \A op \in {"from_amount", "from_value", "from_signed"}, neg \in {FALSE, TRUE} :
      LET e == FromEv(op, neg /\ m # 0)
          excess == s > d /\ m % Pow10(s - d) # 0 IN          \* more fractional digits than the target
      (* panics exactly when the error path has to print a Decimal that rescale() left with a scale
         above MaxScale + 2 (sign included) *)
      /\ MonNoPanic(e) <=> ~(LET r == Rescale(Dec(neg /\ m # 0, m, s), d) IN
                               r.s < d /\ ~MulPow10(r.m, d - r.s).ok /\ FormatPanics(r))
      /\ MonFromExact(e) <=> ~(excess /\ e.bst = "ok")
      /\ (~excess /\ e.bst # "ok") =>                          \* errors only for values out of range
            \/ (neg /\ m # 0 /\ op # "from_signed")
            \/ (m # 0 /\ d - Min(s, d) > 3)
            \/ (m # 0 /\ m * Pow10(d - Min(s, d)) > (IF op = "from_amount" THEN AmtMax ELSE MaxI))
            \/ (m = 0 /\ d - Min(d, MaxScale) > PowMax)
=============================================================================
